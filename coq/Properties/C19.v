(* C19 - every document FRAME produces is accepted back and says the same thing.
   Statements only; every proof is [exact <lemma>].

   Models: Yaml/DieAlloc.v (Die.write_yaml / parse_yaml_die, Allocation.write_yaml /
   _parse_yaml_tree), Yaml/Netgen.v (tools/netgen), Yaml/Producers.v (dump_yaml_namededges,
   FloorSet, rect_io, legalfloor); the netlist reader is read_netlist of C04/C05.
   dump_named mirrors the REPAIRED dump_yaml_namededges (fixes/C19-namededges-copy.diff),
   fs_terminal_entry the repaired FloorSet terminal rectangles
   (fixes/C19-floorset-terminal-position.diff).

   solution_to_netlist / legal_netlist / alloc_netlist_doc mirror the REPAIRED builders
   (fixes/C19-solution-to-netlist-writer.diff, fixes/C19-legalfloor-get-netlist.diff,
   fixes/C19-get-netlist-zero-area.diff); the builders as found are kept under names ending in _found.

   Status: die_rt, alloc_rt, netgen_<topology> (all seven, every size of the domain),
   named_edges_pure, solution_netlist_rt, legal_netlist_rt: PROVED (the last two through
   image_canonical / rt_read_write of C04 and create_stog_stable).  The builders as found are
   refuted by witnesses (the _found_refuted theorems); solution_netlist_found_partial says what the code as
   found did preserve.  With a non-empty result solution_to_netlist replaces rectangles: the
   document is then compared by the correspondence and the oracle only.

   Entry forms (Yaml/ProducersText.v): read_yaml - the tree, the text-or-file-name test on a
   string, the open stream - mirrors the REPAIRED code (fixes/C19-read-yaml-text.diff: a string
   with ': ' or a line break is a text; fixes/C19-read-yaml-stream.diff: io.TextIOBase streams are
   accepted).  The text layer (ruamel) is a Section variable with the contract load (dump t) = t
   and "the written text looks as text_of t says" (compared with the real text on every case).
   written_text_is_text, read_yaml_forms, alloc_forms_rt, die_forms_rt: PROVED; the dispatch as
   found is characterised on allocations (alloc_text_found) and refuted by the allocation without
   occupied cell (read_yaml_text_found_refuted) and on every stream (read_yaml_stream_found_refuted). *)
From FrameModel Require Import Num.QcTac Geometry.Rect Alloc.Alloc Yaml.Tree Yaml.NetlistRead Yaml.NetlistWrite
  Yaml.Netgen Yaml.NetgenFacts Yaml.NetgenHTree Yaml.DieAlloc Yaml.DieAllocFacts Yaml.Producers
  Yaml.ProducersFacts Yaml.ProducersPartial Yaml.ProducersRT Yaml.ProducersFloat Yaml.ProducersAlloc
  Yaml.NetgenGridCenters Yaml.ProducersText Yaml.ProducersTextFacts Yaml.ProducersTwin.
Open Scope Qc_scope.

(* ---------------- the die ---------------- *)
(* reader after writer gives the same die: width, height, blockages, specialised regions *)
Theorem C19_die_rt : forall d,
  die_wfb d = true ->
  read_die (write_die d) = Some (mkDie (dw d) (dh d) (map plain (dblock d)) (map plain (dspec d))).
Proof. exact die_rt. Qed.
Print Assumptions C19_die_rt.

(* writing leaves the die as it was, so a second write gives the same document *)
Theorem C19_die_write_pure : forall d,
  snd (write_die_st d) = d /\ fst (write_die_st (snd (write_die_st d))) = fst (write_die_st d).
Proof. exact die_write_pure. Qed.
Print Assumptions C19_die_write_pure.

(* ---------------- the allocation ---------------- *)
(* reader after writer gives the same cells (centre, size, region, ratios in order, depth) *)
Theorem C19_alloc_rt : forall aeps cells,
  accepted aeps cells -> forallb cell_region_ok cells = true ->
  read_alloc aeps (write_alloc cells) = Some (map plain_cell cells).
Proof. exact alloc_rt. Qed.
Print Assumptions C19_alloc_rt.

Theorem C19_alloc_write_pure : forall cells,
  snd (write_alloc_st cells) = cells /\
  fst (write_alloc_st (snd (write_alloc_st cells))) = fst (write_alloc_st cells).
Proof. exact alloc_write_pure. Qed.
Print Assumptions C19_alloc_write_pure.

(* the hypothesis on the regions is needed: a cell in a blockage region is written but refused *)
Theorem C19_alloc_rt_needs_region :
  accepted 0 alloc_blockage_cell /\ read_alloc 0 (write_alloc alloc_blockage_cell) = None.
Proof. exact alloc_rt_needs_region. Qed.
Print Assumptions C19_alloc_rt_needs_region.

(* ---------------- netgen ---------------- *)
Theorem C19_netgen_chain : forall sqrt_o epsdef n area,
  Qcltb 0 area = true ->
  read_netlist sqrt_o epsdef (gen_chain n area) =
  Ok (loaded sqrt_o epsdef area (chain_entries n) (chain_wedges n)).
Proof. exact netgen_chain. Qed.
Print Assumptions C19_netgen_chain.

Theorem C19_netgen_ring : forall sqrt_o epsdef n area,
  Qcltb 0 area = true ->
  read_netlist sqrt_o epsdef (gen_ring n area) =
  Ok (loaded sqrt_o epsdef area (chain_entries n) (ring_wedges n)).
Proof. exact netgen_ring. Qed.
Print Assumptions C19_netgen_ring.

Theorem C19_netgen_star : forall sqrt_o epsdef n area,
  Qcltb 0 area = true ->
  read_netlist sqrt_o epsdef (gen_star n area) =
  Ok (loaded sqrt_o epsdef area (chain_entries n) (star_wedges n)).
Proof. exact netgen_star. Qed.
Print Assumptions C19_netgen_star.

Theorem C19_netgen_one_net : forall sqrt_o epsdef n area,
  (2 <= n)%nat -> Qcltb 0 area = true ->
  read_netlist sqrt_o epsdef (gen_one_net n area) =
  Ok (loaded sqrt_o epsdef area (chain_entries n) (one_net_wedges n)).
Proof. exact netgen_one_net. Qed.
Print Assumptions C19_netgen_one_net.

Theorem C19_netgen_one_net_domain : forall sqrt_o epsdef n,
  (n < 2)%nat -> exists r, read_netlist sqrt_o epsdef (gen_one_net n 1) = Reject r.
Proof. exact netgen_one_net_domain. Qed.
Print Assumptions C19_netgen_one_net_domain.

Theorem C19_netgen_ring_star : forall sqrt_o epsdef n area,
  (2 <= n)%nat -> Qcltb 0 area = true ->
  read_netlist sqrt_o epsdef (gen_ring_star n area) =
  Ok (loaded sqrt_o epsdef area (chain_entries n) (ring_star_wedges n)).
Proof. exact netgen_ring_star. Qed.
Print Assumptions C19_netgen_ring_star.

Theorem C19_netgen_ring_star_domain : forall sqrt_o epsdef n,
  (n < 2)%nat -> exists r, read_netlist sqrt_o epsdef (gen_ring_star n 1) = Reject r.
Proof. exact netgen_ring_star_domain. Qed.
Print Assumptions C19_netgen_ring_star_domain.

Theorem C19_netgen_grid : forall sqrt_o epsdef rows cols area,
  (1 <= cols)%nat -> Qcltb 0 area = true ->
  read_netlist sqrt_o epsdef (gen_grid rows cols area None) =
  Ok (loaded sqrt_o epsdef area (grid_entries rows cols) (grid_wedges rows cols)).
Proof. exact netgen_grid. Qed.
Print Assumptions C19_netgen_grid.

(* grid with --add-centers: every module also gets the centre gen_modules computed for it
   ((0.5 + c) * w / cols + noise, (0.5 + r) * h / rows + noise), whatever random.gauss returned *)
Theorem C19_netgen_grid_centers : forall sqrt_o epsdef rows cols area w h noise,
  (1 <= cols)%nat -> Qcltb 0 area = true ->
  read_netlist sqrt_o epsdef (gen_grid rows cols area (Some (w, h, noise))) =
  Ok (loaded sqrt_o epsdef area (grid_entries_c w h rows cols noise) (grid_wedges rows cols)).
Proof. exact netgen_grid_centers. Qed.
Print Assumptions C19_netgen_grid_centers.

Theorem C19_netgen_htree : forall sqrt_o epsdef l area,
  (1 <= l)%nat -> Qcltb 0 area = true ->
  exists doc, gen_htree l area = Some doc /\
    read_netlist sqrt_o epsdef doc = Ok (loaded sqrt_o epsdef area (htree_entries l) (hwedges l 1 0)).
Proof. exact netgen_htree. Qed.
Print Assumptions C19_netgen_htree.

(* ---------------- named edges ---------------- *)
Theorem C19_named_edges_pure : forall es,
  snd (dump_named es) = es /\ fst (dump_named (snd (dump_named es))) = fst (dump_named es).
Proof. exact named_edges_pure. Qed.
Print Assumptions C19_named_edges_pure.

(* the code as found: the argument is changed, the second document differs and is no net *)
Theorem C19_named_edges_found_refuted :
  exists es, snd (dump_named_found es) <> es /\
             fst (dump_named_found (snd (dump_named_found es))) <> fst (dump_named_found es) /\
             (forall e, In e (fst (dump_named_found (snd (dump_named_found es)))) ->
                        exists r, parse_edge e = Reject r).
Proof. exact named_edges_found_refuted. Qed.
Print Assumptions C19_named_edges_found_refuted.

(* ---------------- rect_io.solution_to_netlist (repaired) ---------------- *)
(* reader after builder: every loaded netlist, written with no module re-shaped, is accepted
   back with the same modules (kinds, flip, areas per region, aspect ratios, centres, rectangles
   with regions and roles), the same nets and weights and the same tolerances *)
Theorem C19_solution_netlist_rt : forall sqrt_o e doc n,
  read_netlist sqrt_o e doc = Ok n ->
  exists n', read_netlist sqrt_o e (solution_to_netlist n []) = Ok n' /\
             nl_modules n' = nl_modules n /\ nl_nets n' = nl_nets n /\ nl_eps n' = nl_eps n.
Proof. exact solution_netlist_rt. Qed.
Print Assumptions C19_solution_netlist_rt.

(* a module the result does not name is written exactly as Netlist.write_yaml writes it *)
Theorem C19_solution_netlist_other : forall result m,
  lookup (m_name m) result = None -> sol_entry result m = (m_name m, YMap (write_module m)).
Proof. exact sol_entry_other. Qed.
Print Assumptions C19_solution_netlist_other.

(* ---------------- rect_io.get_netlist(None, allocation) (repaired) ---------------- *)
(* for every allocation the constructor accepts, the netlist built from its cells is accepted and
   has one soft module per module of the allocation, in order of first appearance, with the area
   and the centre the Allocation computes (area_of, center_of), and no net *)
Theorem C19_alloc_netlist_rt : forall sqrt_o e aeps cells,
  accepted aeps cells ->
  read_netlist sqrt_o e (alloc_netlist_doc cells) =
  Ok (mkNetlist (map (alloc_module cells) (module_names cells)) [] []
                (epsilon_after sqrt_o e (map (alloc_module cells) (module_names cells)))).
Proof. exact alloc_netlist_rt. Qed.
Print Assumptions C19_alloc_netlist_rt.

(* ---------------- legalfloor Model.get_netlist (repaired) ---------------- *)
(* the document of a model that was built (a module, every module with a rectangle) is the one
   Netlist.write_yaml gives for the netlist whose rectangle numbers are floats *)
Theorem C19_legal_netlist_doc : forall sqrt_o e t n,
  read_netlist sqrt_o e t = Ok n -> buildable n -> legal_netlist n = Some (write_netlist (fln n)).
Proof. exact legal_netlist_doc. Qed.
Print Assumptions C19_legal_netlist_doc.

(* reader after builder: accepted, and loaded as the design the model was built from - modules,
   kinds, flip, areas per region, aspect ratios, centres, the rectangles in their order with
   regions and roles (their four numbers as floats: flm), nets, weights, tolerances *)
Theorem C19_legal_netlist_rt : forall sqrt_o e doc n,
  read_netlist sqrt_o e doc = Ok n -> buildable n ->
  exists t n', legal_netlist n = Some t /\ read_netlist sqrt_o e t = Ok n' /\
               nl_modules n' = map flm (nl_modules n) /\ nl_nets n' = nl_nets n /\ nl_eps n' = nl_eps n.
Proof. exact legal_netlist_rt. Qed.
Print Assumptions C19_legal_netlist_rt.

(* outside that domain no model can be built (tau = .../len(ml); a 0 x 0 trunk) *)
Theorem C19_legal_netlist_domain : forall n,
  (nl_modules n = [] -> legal_netlist n = None) /\
  (forall m, In m (nl_modules n) -> m_rects m = [] -> legal_netlist n = None).
Proof. exact (fun n => conj (legal_netlist_none_modules n) (legal_netlist_none_rects n)). Qed.
Print Assumptions C19_legal_netlist_domain.

(* the hypotheses are satisfiable (the witnesses of the refutations below) *)
Theorem C19_legal_rt_example : forall sqrt_o,
  exists n, read_netlist sqrt_o eps_ref doc_weight_rects = Ok n /\ buildable n.
Proof. exact legal_rt_example. Qed.
Print Assumptions C19_legal_rt_example.

(* the round trips include the tie of create_stog: a module of two congruent rectangles sharing a
   whole side (both can be the trunk, equal areas) keeps the rectangle listed first in front through
   solution_to_netlist, legal_netlist and the reader *)
Theorem C19_twin_rectangles_example : forall sqrt_o,
  exists n n' t n'',
    read_netlist sqrt_o eps_ref twin_doc = Ok n /\ buildable n /\
    rect_order n = [[(qc 503 1, TRUNK); (qc 501 1, WEST)]] /\
    read_netlist sqrt_o eps_ref (solution_to_netlist n []) = Ok n' /\ rect_order n' = rect_order n /\
    legal_netlist n = Some t /\ read_netlist sqrt_o eps_ref t = Ok n'' /\ rect_order n'' = rect_order n.
Proof. exact twin_example. Qed.
Print Assumptions C19_twin_rectangles_example.

(* ---------------- the string builders as found ---------------- *)
Definition C19_solution_found_rt_statement : Prop := solution_found_rt_statement.
Definition C19_legal_found_rt_statement : Prop := legal_found_rt_statement.

(* on soft modules given by area and centre with unit-weight nets the document of the code as
   found is accepted back with the same modules and nets *)
Theorem C19_solution_netlist_found_partial : forall sqrt_o epsdef xs nets rects eps,
  forallb (fun x => Qcltb 0 (c_area x) && valid_identifier (c_name x)) xs = true ->
  nodup_str (map c_name xs) = true ->
  forallb (unit_net_ok (map c_name xs)) nets = true ->
  let n := mkNetlist (map cmodule xs) nets rects eps in
  exists t n', solution_to_netlist_found n [] = Some t /\ read_netlist sqrt_o epsdef t = Ok n' /\
               nl_modules n' = nl_modules n /\ nl_nets n' = nl_nets n.
Proof. exact solution_netlist_rt_partial. Qed.
Print Assumptions C19_solution_netlist_found_partial.

Theorem C19_solution_netlist_found_refuted : forall sqrt_o,
  (exists n t n', read_netlist sqrt_o eps_ref doc_weight = Ok n /\ solution_to_netlist_found n [] = Some t /\
                  read_netlist sqrt_o eps_ref t = Ok n' /\ map n_weight (nl_nets n') <> map n_weight (nl_nets n)) /\
  (exists n t r, read_netlist sqrt_o eps_ref doc_terminal = Ok n /\ solution_to_netlist_found n [] = Some t /\
                 read_netlist sqrt_o eps_ref t = Reject r).
Proof. exact solution_found_refuted. Qed.
Print Assumptions C19_solution_netlist_found_refuted.

Theorem C19_legal_netlist_found_refuted : forall sqrt_o,
  exists n t n', read_netlist sqrt_o eps_ref doc_weight_rects = Ok n /\ legal_netlist_found n = Some t /\
                 read_netlist sqrt_o eps_ref t = Ok n' /\
                 map n_weight (nl_nets n') <> map n_weight (nl_nets n) /\
                 map mr_region (nl_rects n') <> map mr_region (nl_rects n).
Proof. exact legal_found_refuted. Qed.
Print Assumptions C19_legal_netlist_found_refuted.

(* rect_io.get_netlist as found divides 0 by 0 on an accepted allocation; repaired it gives the module *)
Theorem C19_alloc_netlist_found_refuted :
  accepted 0 zero_ratio_cells /\ alloc_netlist_doc_found zero_ratio_cells = None /\
  alloc_netlist_doc zero_ratio_cells =
    netlist_doc [("M2"%string, YMap [(KW_AREA, yfloat (qc 4 1)); (KW_CENTER, YList [yfloat (qc 5 1); yfloat (qc 1 1)])])] [].
Proof. exact alloc_netlist_found_refuted. Qed.
Print Assumptions C19_alloc_netlist_found_refuted.

(* ---------------- the entry forms of the readers (read_yaml, repaired) ---------------- *)
(* whatever tree a writer hands to write_yaml, the text has a line break and the string test of
   read_yaml takes it for a text, not for a file name *)
Theorem C19_written_text_is_text : forall t, string_route (text_of t) = ParseText.
Proof. exact written_text_is_text. Qed.
Print Assumptions C19_written_text_is_text.

(* with a text layer that reads back what it wrote: the tree, the text write_yaml() returned, the
   name of a file holding that text and a stream opened on it all hand the written tree to the reader *)
Theorem C19_read_yaml_forms :
  forall (text : Type) (dump : ytree -> text) (load : text -> option ytree) (looks : text -> text_abs)
         (file : text -> option text),
    (forall t, load (dump t) = Some t) -> (forall t, looks (dump t) = text_of t) ->
    forall t name, file name = Some (dump t) -> string_route (looks name) = OpenFile ->
    forall src, In src (forms_of text dump t name) -> read_yaml text load looks file src = Some t.
Proof. exact read_yaml_forms. Qed.
Print Assumptions C19_read_yaml_forms.

(* the hypothesis on the name holds of a string without ': ' and without line break *)
Example C19_file_name_example :
  string_route (abs_of_string "/tmp/allocations/a_1.yaml") = OpenFile /\
  string_route (abs_of_string empty_cells_text) = ParseText /\
  abs_of_string empty_cells_text = text_of (write_alloc empty_cells).
Proof. exact file_name_example. Qed.

(* Allocation(...) and Die(...) on every entry form of a written allocation / die *)
Theorem C19_alloc_forms_rt :
  forall (text : Type) (dump : ytree -> text) (load : text -> option ytree) (looks : text -> text_abs)
         (file : text -> option text),
    (forall t, load (dump t) = Some t) -> (forall t, looks (dump t) = text_of t) ->
    forall aeps cells name,
    accepted aeps cells -> forallb cell_region_ok cells = true ->
    file name = Some (dump (write_alloc cells)) -> string_route (looks name) = OpenFile ->
    forall src, In src (forms_of text dump (write_alloc cells) name) ->
    allocation_of text load looks file aeps src = Some (map plain_cell cells).
Proof. exact alloc_forms_rt. Qed.
Print Assumptions C19_alloc_forms_rt.

Theorem C19_die_forms_rt :
  forall (text : Type) (dump : ytree -> text) (load : text -> option ytree) (looks : text -> text_abs)
         (file : text -> option text),
    (forall t, load (dump t) = Some t) -> (forall t, looks (dump t) = text_of t) ->
    forall d name,
    die_wfb d = true ->
    file name = Some (dump (write_die d)) -> string_route (looks name) = OpenFile ->
    forall src, In src (forms_of text dump (write_die d) name) ->
    die_of text load looks file src = Some (mkDie (dw d) (dh d) (map plain (dblock d)) (map plain (dspec d))).
Proof. exact die_forms_rt. Qed.
Print Assumptions C19_die_forms_rt.

(* ---------------- read_yaml as found ---------------- *)
(* the string test as found (': ' only) takes the text of a die for a text, and the text of an
   allocation exactly when some cell is occupied *)
Theorem C19_die_text_found : forall d, string_route_found (text_of (write_die d)) = ParseText.
Proof. exact die_text_found. Qed.
Print Assumptions C19_die_text_found.

Theorem C19_alloc_text_found : forall cells,
  forallb cell_region_ok cells = true ->
  string_route_found (text_of (write_alloc cells)) = if existsb occupied cells then ParseText else OpenFile.
Proof. exact alloc_text_found. Qed.
Print Assumptions C19_alloc_text_found.

(* Allocation([[[1,1,2,2,'_'],{}],[[3,1,2,2,'_'],{}]]) is accepted, its text has no ': ': as found
   the reader looks for a file of that name (FileNotFoundError), repaired it gets the tree back *)
Theorem C19_read_yaml_text_found_refuted :
  accepted 0 empty_cells /\ forallb cell_region_ok empty_cells = true /\
  forall (text : Type) (dump : ytree -> text) (load : text -> option ytree) (looks : text -> text_abs)
         (file : text -> option text),
    (forall t, load (dump t) = Some t) -> (forall t, looks (dump t) = text_of t) ->
    file (dump (write_alloc empty_cells)) = None ->
    read_yaml_found text load looks file (SrcString (dump (write_alloc empty_cells))) = None /\
    read_yaml text load looks file (SrcString (dump (write_alloc empty_cells))) = Some (write_alloc empty_cells).
Proof. exact alloc_text_found_refuted. Qed.
Print Assumptions C19_read_yaml_text_found_refuted.

(* as found no stream is accepted: isinstance(stream, typing.TextIO) holds of no real stream *)
Theorem C19_read_yaml_stream_found_refuted :
  forall (text : Type) (load : text -> option ytree) (looks : text -> text_abs) (file : text -> option text) c,
    read_yaml_found text load looks file (SrcStream c) = None.
Proof. exact read_yaml_found_stream. Qed.
Print Assumptions C19_read_yaml_stream_found_refuted.
