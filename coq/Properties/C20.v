(* C20 - results do not depend on what the process did before.
   Statements only; every proof is [exact <lemma>].  Model: History/State.v (the process-wide state made explicit:
   Rectangle's first-writer-wins tolerances, the decision-diagram store, the legaliser's module state, the objects
   bound to the default arguments of Ineq and Strop), facts in History/StateFacts.v.
   The histories of the theorems are ARBITRARY lists of operations: nothing relates them to the probe, so they
   contain in particular the probe's own design (executed any number of times) and near-duplicates of it - same cut
   coordinates / other occupied cells, same names / other shapes, same inequality / other bound
   (C20_history_with_probe_independent, C20_related_history_example).

   Reading.  A tolerance installed by the first design loaded in a process is RELATIVE to that design
   (1e-12 x its smallest dimension; 10e-12 x the smaller side of a die), so a later design is judged with an
   earlier design's tolerance.  [band lo hi e] : lo <= e <= hi is the set of tolerances histories within the
   property's scale factor can install; an input is ROBUST for the band when every quantity the code compares with
   a tolerance lies below lo or above hi (gapok).  For robust inputs every tolerance of the band gives the same
   result (the eps_insensitive theorems), hence the result after any history equals the result in a fresh process
   (history_independent).  Inputs with a gap or overlap INSIDE the band genuinely depend on which design was
   loaded first (nonrobust_probe_differs; open finding C20/epsilon-first-writer, DESIGN F15). *)
From Coq Require Import ZArith List Bool String.
From FrameModel Require Import Num.QcTac Geometry.Rect Stog.CreateStog
  PB.Expr PB.Cnf PB.Amo PB.Robdd PB.Codify PB.Sat PB.SatSpan History.State History.StateFacts History.PatternFacts.
Import ListNotations.
Open Scope Qc_scope.

(* ---- the geometric predicates ---- *)
Theorem C20_eps_insensitive_touches : forall lo hi e1 e2 r s,
  band lo hi e1 -> band lo hi e2 -> robust_touches lo hi r s = true ->
  touches e1 r s = touches e2 r s.
Proof. exact eps_insensitive_touches. Qed.
Print Assumptions C20_eps_insensitive_touches.

Theorem C20_eps_insensitive_overlap : forall alo ahi a1 a2 r s,
  band alo ahi a1 -> band alo ahi a2 -> robust_overlap alo ahi r s = true ->
  overlap a1 r s = overlap a2 r s.
Proof. exact eps_insensitive_overlap. Qed.
Print Assumptions C20_eps_insensitive_overlap.

Theorem C20_eps_insensitive_find_location : forall lo hi alo ahi e1 e2 a1 a2 t r,
  band lo hi e1 -> band lo hi e2 -> band alo ahi a1 -> band alo ahi a2 ->
  robust_fl lo hi alo ahi t r = true ->
  find_location e1 a1 t r = find_location e2 a2 t r.
Proof. exact eps_insensitive_find_location. Qed.
Print Assumptions C20_eps_insensitive_find_location.

Theorem C20_eps_insensitive_uniq : forall lo hi e1 e2, band lo hi e1 -> band lo hi e2 ->
  forall l, robust_coords lo hi l = true -> AL.uniq e1 l = AL.uniq e2 l.
Proof. exact eps_insensitive_uniq. Qed.
Print Assumptions C20_eps_insensitive_uniq.

Theorem C20_eps_insensitive_gather_boundaries : forall lo hi e1 e2, band lo hi e1 -> band lo hi e2 ->
  forall rs, robust_bounds lo hi rs = true ->
  AL.gather_boundaries e1 rs = AL.gather_boundaries e2 rs /\ DB.gather_boundaries e1 rs = DB.gather_boundaries e2 rs.
Proof. exact (fun lo hi e1 e2 B1 B2 rs R =>
  conj (eps_insensitive_gather_boundaries lo hi e1 e2 B1 B2 rs R) (eps_insensitive_die_boundaries lo hi e1 e2 B1 B2 rs R)). Qed.
Print Assumptions C20_eps_insensitive_gather_boundaries.

(* ---- the operations built on them ---- *)
Theorem C20_eps_insensitive_create_stog : forall lo hi alo ahi e1 e2 a1 a2,
  band lo hi e1 -> band lo hi e2 -> band alo ahi a1 -> band alo ahi a2 ->
  forall rs, robust_stog lo hi alo ahi rs = true -> create_stog e1 a1 rs = create_stog e2 a2 rs.
Proof. exact eps_insensitive_create_stog. Qed.
Print Assumptions C20_eps_insensitive_create_stog.

Theorem C20_eps_insensitive_mk_allocation : forall alo ahi a1 a2, band alo ahi a1 -> band alo ahi a2 ->
  forall cells, robust_pairs alo ahi (map AL.crect cells) = true ->
  AL.mk_allocation a1 cells = AL.mk_allocation a2 cells.
Proof. exact eps_insensitive_mk_allocation. Qed.
Print Assumptions C20_eps_insensitive_mk_allocation.

Theorem C20_eps_insensitive_refine : forall alo ahi a1 a2, band alo ahi a1 -> band alo ahi a2 ->
  forall t levels cells,
  (forall new, AL.refine_cells t levels cells = Some new -> robust_pairs alo ahi (map AL.crect new) = true) ->
  AL.refine a1 t levels cells = AL.refine a2 t levels cells.
Proof. exact eps_insensitive_refine. Qed.
Print Assumptions C20_eps_insensitive_refine.

Theorem C20_eps_insensitive_griddify : forall lo hi alo ahi e1 e2 a1 a2,
  band lo hi e1 -> band lo hi e2 -> band alo ahi a1 -> band alo ahi a2 ->
  forall q cells, robust_bounds lo hi (map AL.crect cells) = true ->
  (forall new, AL.griddify_cells e2 q cells = Some new -> robust_pairs alo ahi (map AL.crect new) = true) ->
  AL.griddify e1 a1 q cells = AL.griddify e2 a2 q cells.
Proof. exact eps_insensitive_griddify. Qed.
Print Assumptions C20_eps_insensitive_griddify.

(* a constructor followed by any sequence of refine / uniform_refinement_depth / griddify *)
Theorem C20_eps_insensitive_alloc_run : forall lo hi alo ahi, lo <= hi -> alo <= ahi ->
  forall e1 a1 e2 a2 q ops cells,
  band lo hi e1 -> band lo hi e2 -> band alo ahi a1 -> band alo ahi a2 ->
  robust_alloc lo hi alo ahi q ops cells = true ->
  match AL.mk_allocation a1 cells with Some cs => AL.run_ops e1 a1 q ops cs | None => None end =
  match AL.mk_allocation a2 cells with Some cs => AL.run_ops e2 a2 q ops cs | None => None end.
Proof. exact eps_insensitive_alloc_run. Qed.
Print Assumptions C20_eps_insensitive_alloc_run.

Theorem C20_eps_insensitive_die_model : forall lo hi alo ahi e1 e2 a1 a2 deps tin d,
  band lo hi e1 -> band lo hi e2 -> band alo ahi a1 -> band alo ahi a2 ->
  robust_die lo hi alo ahi d = true ->
  DM.die_model e1 a1 deps tin d = DM.die_model e2 a2 deps tin d.
Proof. exact eps_insensitive_die_model. Qed.
Print Assumptions C20_eps_insensitive_die_model.

(* loading a netlist under two states of the class-wide tolerances (undefined, or defined by an earlier design):
   same modules, nets and rectangles - everything but the record of the tolerances themselves *)
Theorem C20_eps_insensitive_read_netlist : forall (sqrt_o : Qc -> Qc) lo hi alo ahi e1 e2 a1 a2,
  band lo hi e1 -> band lo hi e2 -> band alo ahi a1 -> band alo ahi a2 ->
  forall d1 d2 t,
  (forall p ms1, NR.parse_netlist t = NR.Ok p -> NR.cr_squares sqrt_o (fst p) = NR.Ok ms1 ->
     NR.epsilon_after sqrt_o d1 ms1 = Some (e1, a1) /\ NR.epsilon_after sqrt_o d2 ms1 = Some (e2, a2)) ->
  robust_netlist sqrt_o lo hi alo ahi t = true ->
  nl_result_view (NR.read_netlist sqrt_o d1 t) = nl_result_view (NR.read_netlist sqrt_o d2 t).
Proof. exact eps_insensitive_read_netlist. Qed.
Print Assumptions C20_eps_insensitive_read_netlist.

(* ---- the diagram store ---- *)
Theorem C20_memory_independent : forall (m1 m2 : memory) ps, mem_wf m1 -> mem_wf m2 -> Forall post_ok ps ->
  exists m1' s1 m2' s2 sts,
    run_posts m1 empty_mgr ps = Some (m1', s1, sts) /\ run_posts m2 empty_mgr ps = Some (m2', s2, sts) /\
    mem_wf m1' /\ mem_wf m2' /\
    (forall a, ext a (clauses s1) <-> ext a (clauses s2)) /\
    (forall a, ext a (clauses s1) <-> accepted_hold a ps sts).
Proof. exact memory_independent. Qed.
Print Assumptions C20_memory_independent.

(* ... whatever its SIZE: the two stores of C20_memory_independent are arbitrary well-formed lists; for every n
   there is one with n nodes (the store a history of thousands of encodings leaves behind), and the posts
   started from it are accepted / refused and restrict the user's variables exactly as from the empty store *)
Theorem C20_memory_any_size : forall n ps, Forall post_ok ps ->
  exists m0 : memory, List.length m0 = n /\ mem_wf m0 /\
    exists m s m' s' sts,
      run_posts [] empty_mgr ps = Some (m, s, sts) /\ run_posts m0 empty_mgr ps = Some (m', s', sts) /\
      forall a, ext a (clauses s) <-> ext a (clauses s').
Proof. exact memory_any_size. Qed.
Print Assumptions C20_memory_any_size.

(* ... and however it GROWS while one manager is posting: the manager posts ps1, other designs' encodings enlarge
   the store (any well-formed extension, of any size: the store may pass any size threshold between two posts
   of that manager), the manager posts ps2.  Two such runs - from two arbitrary well-formed stores, with two
   arbitrary growths (take m0' = [] and ex' = []: the probe alone, first thing in a process) - accept the same posts
   and restrict the user's variables to the same assignments, those satisfying every accepted constraint *)
Theorem C20_memory_span_independent : forall (m0 m0' : memory) ps1 ps2,
  mem_wf m0 -> mem_wf m0' -> Forall post_ok ps1 -> Forall post_ok ps2 ->
  exists m1 s1 m1' s1' sts1,
    run_posts m0 empty_mgr ps1 = Some (m1, s1, sts1) /\ run_posts m0' empty_mgr ps1 = Some (m1', s1', sts1) /\
    forall ex ex' : memory, mem_wf (m1 ++ ex) -> mem_wf (m1' ++ ex') ->
      exists m2 s2 m2' s2' sts2,
        run_posts (m1 ++ ex) s1 ps2 = Some (m2, s2, sts2) /\ run_posts (m1' ++ ex') s1' ps2 = Some (m2', s2', sts2) /\
        (forall a, ext a (clauses s2) <-> ext a (clauses s2')) /\
        (forall a, ext a (clauses s2) <-> accepted_hold a ps1 sts1 /\ accepted_hold a ps2 sts2).
Proof. exact post_span_store_independent. Qed.
Print Assumptions C20_memory_span_independent.

(* ---- histories ---- *)
(* the first writer's tolerances are never replaced *)
Theorem C20_first_writer_wins : forall (sqrt_o : Qc -> Qc) (li lo : Type) (b : li -> lo) (pr : li -> Qc * Qc * Qc)
  s o e, g_eps s = Some e -> g_eps (fst (step sqrt_o li lo b pr s o)) = Some e.
Proof. exact first_writer_wins. Qed.
Print Assumptions C20_first_writer_wins.

Theorem C20_legal_independent : forall (sqrt_o : Qc -> Qc) (li lo : Type) (b : li -> lo) (pr : li -> Qc * Qc * Qc)
  s1 s2 x, snd (step sqrt_o li lo b pr s1 (OLegal li x)) = snd (step sqrt_o li lo b pr s2 (OLegal li x)).
Proof. exact legal_independent. Qed.
Print Assumptions C20_legal_independent.

(* two states whose tolerances (if any) lie in the band and whose stores are well formed: a robust probe gives
   observably equal results *)
Theorem C20_probe_independent : forall (sqrt_o : Qc -> Qc), (forall x y, x <= y -> sqrt_o x <= sqrt_o y) ->
  forall (li lo_ : Type) (b : li -> lo_) (pr : li -> Qc * Qc * Qc) lo hi, lo <= hi ->
  forall s1 s2 p, st_ok sqrt_o lo hi s1 -> st_ok sqrt_o lo hi s2 ->
  cand_ok sqrt_o li lo hi p -> posts_ok li p -> probe_robust sqrt_o li lo hi p ->
  obs_equiv lo_ (snd (step sqrt_o li lo_ b pr s1 p)) (snd (step sqrt_o li lo_ b pr s2 p)).
Proof. exact probe_independent. Qed.
Print Assumptions C20_probe_independent.

(* every history of operations on designs whose tolerances fall in the band, then a robust probe: the result is
   the one of a fresh process *)
Theorem C20_history_independent : forall (sqrt_o : Qc -> Qc), (forall x y, x <= y -> sqrt_o x <= sqrt_o y) ->
  forall (li lo_ : Type) (b : li -> lo_) (pr : li -> Qc * Qc * Qc) lo hi, lo <= hi ->
  forall (h : list (opn li)) (p : opn li),
  Forall (cand_ok sqrt_o li lo hi) h -> Forall (posts_ok li) h ->
  cand_ok sqrt_o li lo hi p -> posts_ok li p -> probe_robust sqrt_o li lo hi p ->
  obs_equiv lo_ (snd (step sqrt_o li lo_ b pr (run sqrt_o li lo_ b pr h s_init) p))
                   (snd (step sqrt_o li lo_ b pr s_init p)).
Proof. exact history_independent. Qed.
Print Assumptions C20_history_independent.

(* the history may contain the probed operation itself, any number of times, between arbitrary other operations
   (idempotence: executing the probe earlier does not change its later answer) *)
Theorem C20_history_with_probe_independent : forall (sqrt_o : Qc -> Qc), (forall x y, x <= y -> sqrt_o x <= sqrt_o y) ->
  forall (li lo_ : Type) (b : li -> lo_) (pr : li -> Qc * Qc * Qc) lo hi, lo <= hi ->
  forall (h1 h2 : list (opn li)) (n : nat) (p : opn li),
  Forall (cand_ok sqrt_o li lo hi) h1 -> Forall (posts_ok li) h1 ->
  Forall (cand_ok sqrt_o li lo hi) h2 -> Forall (posts_ok li) h2 ->
  cand_ok sqrt_o li lo hi p -> posts_ok li p -> probe_robust sqrt_o li lo hi p ->
  obs_equiv lo_ (snd (step sqrt_o li lo_ b pr (run sqrt_o li lo_ b pr (h1 ++ repeat p (S n) ++ h2) s_init) p))
                   (snd (step sqrt_o li lo_ b pr s_init p)).
Proof. exact history_with_probe_independent. Qed.
Print Assumptions C20_history_with_probe_independent.

(* a history of near-duplicates: two dies with exactly the same cut coordinates and other occupied cells, the probe's
   own design among them; the hypotheses of C20_history_independent hold, the two designs have different results,
   and the probe's result after the history is the decomposition of its own cells *)
Theorem C20_related_history_example :
  Forall (cand_ok (fun x => x) unit ex_band_lo ex_band_hi) ex_rel_hist /\
  Forall (posts_ok unit) ex_rel_hist /\
  cand_ok (fun x => x) unit ex_band_lo ex_band_hi ex_die_probe /\
  probe_robust (fun x => x) unit ex_band_lo ex_band_hi ex_die_probe /\
  In ex_die_probe ex_rel_hist /\
  snd (ex_step s_init ex_die_other) <> snd (ex_step s_init ex_die_probe) /\
  exists g sp bl fx,
    snd (ex_step (ex_run ex_rel_hist s_init) ex_die_probe) = RDie unit (DM.Accept g sp bl fx) /\
    snd (ex_step s_init ex_die_probe) = RDie unit (DM.Accept g sp bl fx) /\
    boxes_eqb (map box4 g) [(qc 3 1, qc 1 1, qc 6 1, qc 2 1); (qc 5 1, qc 3 1, qc 2 1, qc 2 1)] = true /\
    boxes_eqb (map box4 sp) [(qc 1 1, qc 3 1, qc 2 1, qc 2 1); (qc 3 1, qc 3 1, qc 2 1, qc 2 1)] = true.
Proof. exact related_history_hypotheses_satisfiable. Qed.
Print Assumptions C20_related_history_example.

(* a history of designs with the probe's PATTERN and other coordinates: two dies whose 3 x 3 matrices of cells
   are both "centre occupied" (6 x 6, lines 0 2 4 6; 12 x 5, lines 0 9 11 12 / 0 1 4 5); the hypotheses of
   C20_history_independent hold, the two designs decompose differently, and the probe's answer after the
   history is its fresh answer (first ground region: its own wide first column 9 x 5) *)
Theorem C20_same_pattern_example :
  Forall (cand_ok (fun x => x) unit ex_band_lo ex_band_hi) pat_hist /\
  Forall (posts_ok unit) pat_hist /\
  cand_ok (fun x => x) unit ex_band_lo ex_band_hi pat_b /\
  probe_robust (fun x => x) unit ex_band_lo ex_band_hi pat_b /\
  snd (ex_step s_init pat_a) <> snd (ex_step s_init pat_b) /\
  snd (ex_step (ex_run pat_hist s_init) pat_b) = snd (ex_step s_init pat_b) /\
  exists g sp bl fx,
    snd (ex_step (ex_run pat_hist s_init) pat_b) = RDie unit (DM.Accept g sp bl fx) /\
    List.length g = 4%nat /\
    boxes_eqb (map box4 (firstn 1 g)) [(qc 9 2, qc 5 2, qc 9 1, qc 5 1)] = true.
Proof. exact same_pattern_other_coordinates. Qed.
Print Assumptions C20_same_pattern_example.

(* ---- objects bound to default arguments: no operation writes them ---- *)
Theorem C20_defaults_never_written : forall (sqrt_o : Qc -> Qc) (li lo : Type) (b : li -> lo) (pr : li -> Qc * Qc * Qc)
  (h : list (opn li)) s, g_dflt (run sqrt_o li lo b pr h s) = g_dflt s.
Proof. exact defaults_never_written. Qed.
Print Assumptions C20_defaults_never_written.

(* ---- where the dependence is: a gap inside the band ---- *)
Theorem C20_nonrobust_probe_differs :
  robust_stog ex_lo ex_hi ex_lo ex_hi [ex_trunk; ex_branch_gap] = false /\
  band ex_lo ex_hi ex_lo /\ band ex_lo ex_hi ex_hi /\
  touches ex_lo ex_trunk ex_branch_gap <> touches ex_hi ex_trunk ex_branch_gap /\
  find_location ex_lo ex_lo ex_trunk ex_branch_gap <> find_location ex_hi ex_hi ex_trunk ex_branch_gap /\
  create_stog ex_lo ex_lo [ex_trunk; ex_branch_gap] <> create_stog ex_hi ex_hi [ex_trunk; ex_branch_gap].
Proof. exact nonrobust_probe_differs. Qed.
Print Assumptions C20_nonrobust_probe_differs.
