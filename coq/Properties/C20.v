(* C20 - results do not depend on what the process did before.
   Statements only; every proof is [exact <lemma>].  Model: History/State.v. *)
From Coq Require Import ZArith List Bool String.
From FrameModel Require Import Num.QcTac Geometry.Rect Stog.CreateStog History.State History.StateFacts.
Import ListNotations.
Open Scope Qc_scope.

Theorem C20_eps_insensitive_touches : forall lo hi e1 e2 r s,
  band lo hi e1 -> band lo hi e2 -> robust_touches lo hi r s = true ->
  touches e1 r s = touches e2 r s.
Proof. exact eps_insensitive_touches. Qed.
Print Assumptions C20_eps_insensitive_touches.
