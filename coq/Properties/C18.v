(* C18 - Rectangle operations agree with plane geometry.
   Statements only; every proof is [exact <lemma>]. *)
From FrameModel Require Import Num.QcTac Geometry.Rect Geometry.RectFacts Geometry.SplitFacts Geometry.RectHist.
Open Scope Qc_scope.

Theorem C18_ov_sym : forall r s, area_overlap r s = area_overlap s r.
Proof. exact ov_sym. Qed.
Print Assumptions C18_ov_sym.

(* overlap area = area of the common region; zero iff no common interior point *)
Theorem C18_ov_common_region : forall r s,
  (0 < area_overlap r s ->
     bx0 r s < bx1 r s /\ by0 r s < by1 r s /\
     area_overlap r s = (bx1 r s - bx0 r s) * (by1 r s - by0 r s) /\
     forall px py, (bx0 r s <= px /\ px <= bx1 r s /\ by0 r s <= py /\ py <= by1 r s)
                   <-> (Pt r px py /\ Pt s px py)) /\
  (area_overlap r s = 0 -> forall px py, ~ (IntPt r px py /\ IntPt s px py)) /\
  (0 < area_overlap r s \/ area_overlap r s = 0).
Proof. exact ov_common_region. Qed.
Print Assumptions C18_ov_common_region.

Theorem C18_ov_pos_interior : forall r s,
  0 < area_overlap r s -> exists px py, IntPt r px py /\ IntPt s px py.
Proof. exact ov_pos_interior. Qed.
Print Assumptions C18_ov_pos_interior.

(* intersection exists exactly when regions match and the common area is positive *)
Theorem C18_inter_none_iff : forall r s,
  inter r s = None <-> (region r <> region s \/ area_overlap r s = 0).
Proof. exact inter_none_iff. Qed.
Print Assumptions C18_inter_none_iff.

Theorem C18_inter_some : forall r s t, inter r s = Some t ->
  region r = region s /\ 0 < area_overlap r s /\
  xmin t = bx0 r s /\ xmax t = bx1 r s /\ ymin t = by0 r s /\ ymax t = by1 r s /\
  wf t /\ area t = area_overlap r s /\
  is_inside t r = true /\ is_inside t s = true /\
  (forall px py, Pt t px py <-> (Pt r px py /\ Pt s px py)) /\
  same_attrs r t /\ rloc t = NOPOLY.
Proof. exact inter_some. Qed.
Print Assumptions C18_inter_some.

Theorem C18_inter_sym : forall r s,
  match inter r s, inter s r with
  | None, None => True
  | Some t, Some u =>
      cx t = cx u /\ cy t = cy u /\ rw t = rw u /\ rh t = rh u /\
      same_attrs r t /\ same_attrs s u
  | _, _ => False
  end.
Proof. exact inter_sym. Qed.
Print Assumptions C18_inter_sym.

Theorem C18_point_inside_iff : forall r px py, point_inside r px py = true <-> Pt r px py.
Proof. exact point_inside_iff. Qed.
Print Assumptions C18_point_inside_iff.

Theorem C18_inside_iff_pts : forall r s, wf r ->
  (is_inside r s = true <-> forall px py, Pt r px py -> Pt s px py).
Proof. exact inside_iff_pts. Qed.
Print Assumptions C18_inside_iff_pts.

Theorem C18_touches_iff : forall eps r s, wf r -> wf s -> 0 <= eps ->
  (touches eps r s = true <->
   exists px py qx qy, Pt r px py /\ Pt s qx qy /\
     Qcabs (px - qx) <= eps /\ Qcabs (py - qy) <= eps).
Proof. exact touches_iff. Qed.
Print Assumptions C18_touches_iff.

Theorem C18_split_h_tiles : forall r x0 r1 r2, wf r ->
  split_horizontal r x0 = Some (r1, r2) ->
  let x := if Qcltb x0 0 then cx r else x0 in
  xmin r < x /\ x < xmax r /\
  xmin r1 = xmin r /\ xmax r1 = x /\ xmin r2 = x /\ xmax r2 = xmax r /\
  ymin r1 = ymin r /\ ymax r1 = ymax r /\ ymin r2 = ymin r /\ ymax r2 = ymax r /\
  same_attrs r r1 /\ same_attrs r r2 /\ rloc r1 = NOPOLY /\ rloc r2 = NOPOLY /\
  tiles [r1; r2] r.
Proof. exact split_h_tiles. Qed.
Print Assumptions C18_split_h_tiles.

Theorem C18_split_v_tiles : forall r y0 r1 r2, wf r ->
  split_vertical r y0 = Some (r1, r2) ->
  let y := if Qcltb y0 0 then cy r else y0 in
  ymin r < y /\ y < ymax r /\
  ymin r1 = ymin r /\ ymax r1 = y /\ ymin r2 = y /\ ymax r2 = ymax r /\
  xmin r1 = xmin r /\ xmax r1 = xmax r /\ xmin r2 = xmin r /\ xmax r2 = xmax r /\
  same_attrs r r1 /\ same_attrs r r2 /\ rloc r1 = NOPOLY /\ rloc r2 = NOPOLY /\
  tiles [r1; r2] r.
Proof. exact split_v_tiles. Qed.
Print Assumptions C18_split_v_tiles.

Theorem C18_split_h_reject_iff : forall r x0,
  let x := if Qcltb x0 0 then cx r else x0 in
  split_horizontal r x0 = None <-> ~ (xmin r < x /\ x < xmax r).
Proof. exact split_h_reject_iff. Qed.
Print Assumptions C18_split_h_reject_iff.

Theorem C18_split_v_reject_iff : forall r y0,
  let y := if Qcltb y0 0 then cy r else y0 in
  split_vertical r y0 = None <-> ~ (ymin r < y /\ y < ymax r).
Proof. exact split_v_reject_iff. Qed.
Print Assumptions C18_split_v_reject_iff.

Theorem C18_split_halves : forall r, wf r ->
  exists r1 r2, split r = Some (r1, r2) /\ tiles [r1; r2] r /\
    area r1 = area r * half /\ area r2 = area r * half /\
    same_attrs r r1 /\ same_attrs r r2 /\
    (rw r < rh r -> rw r1 = rw r /\ rw r2 = rw r /\ rh r1 = rh r * half /\ rh r2 = rh r * half) /\
    (rh r <= rw r -> rh r1 = rh r /\ rh r2 = rh r /\ rw r1 = rw r * half /\ rw r2 = rw r * half).
Proof. exact split_halves. Qed.
Print Assumptions C18_split_halves.

Theorem C18_x_cuttable_iff : forall r x q,
  x_cuttable r x q = true <->
  (xmin r < x /\ x < xmax r /\ q * rh r < x - xmin r /\ q * rh r < xmax r - x).
Proof. exact x_cuttable_iff. Qed.
Print Assumptions C18_x_cuttable_iff.

Theorem C18_y_cuttable_iff : forall r y q,
  y_cuttable r y q = true <->
  (ymin r < y /\ y < ymax r /\ q * rw r < y - ymin r /\ q * rw r < ymax r - y).
Proof. exact y_cuttable_iff. Qed.
Print Assumptions C18_y_cuttable_iff.

(* gridding: rows*cols pieces that tile the rectangle and inherit its attributes (proved in Refine/GridFacts.v) *)
From FrameModel Require Import Refine.GridFacts.
Theorem C18_grid_count : forall d nrows ncols g,
  rectangle_grid d nrows ncols = Some g -> List.length g = (nrows * ncols)%nat.
Proof. exact grid_count. Qed.
Print Assumptions C18_grid_count.

Theorem C18_grid_tiles : forall d nrows ncols g, wf d -> rectangle_grid d nrows ncols = Some g -> tiles g d.
Proof. exact grid_tiles. Qed.
Print Assumptions C18_grid_tiles.

Theorem C18_grid_attrs : forall d nrows ncols g,
  rectangle_grid d nrows ncols = Some g ->
  Forall (fun c => same_attrs d c /\ rloc c = NOPOLY /\
                   rw c = rw d / ofnat ncols /\ rh c = rh d / ofnat nrows) g.
Proof. exact grid_attrs. Qed.
Print Assumptions C18_grid_attrs.

(* ---------------------------------------------------------------------------------------
   Object histories (Geometry/RectHist.v): a Rectangle is a mutable object; every method above
   is a read of its current values.  The theorems above quantify over all rectangles, hence hold
   of the values an object has at any moment; the statements below say that writes, reads and
   returned rectangles interact through those values only.
   --------------------------------------------------------------------------------------- *)

(* a write (by attribute assignment on the Point / Shape, by += or by a setter) changes the named
   field of the named object and nothing else *)
Theorem C18_write_frame : forall pool m i f v j, j <> i ->
  nth_error (gapply pool (GSet m i f v)) j = nth_error pool j.
Proof. exact gwrite_frame. Qed.
Print Assumptions C18_write_frame.

Theorem C18_write_field : forall pool m i f v r, nth_error pool i = Some r ->
  exists r', nth_error (gapply pool (GSet m i f v)) i = Some r' /\
    get_field r' f = v /\ (forall f', f' <> f -> get_field r' f' = get_field r f') /\
    fixed r' = fixed r /\ hard r' = hard r /\ region r' = region r /\ rloc r' = rloc r.
Proof. exact gwrite_field. Qed.
Print Assumptions C18_write_field.

Theorem C18_flag_frame : forall pool i j, j <> i ->
  (forall b, nth_error (gapply pool (GFixed i b)) j = nth_error pool j) /\
  (forall b, nth_error (gapply pool (GHard i b)) j = nth_error pool j) /\
  (forall s, nth_error (gapply pool (GRegion i s)) j = nth_error pool j).
Proof. exact gflag_frame. Qed.
Print Assumptions C18_flag_frame.

Theorem C18_mech_irrelevant : forall pool m m' i f v,
  gapply pool (GSet m i f v) = gapply pool (GSet m' i f v).
Proof. exact gmech_irrelevant. Qed.
Print Assumptions C18_mech_irrelevant.

(* a read changes nothing *)
Theorem C18_query_pure : forall pool q, gapply pool (GQuery q) = pool.
Proof. exact gquery_pure. Qed.
Print Assumptions C18_query_pure.

(* a returned rectangle (piece of a split, intersection, grid cell) is an object of its own *)
Theorem C18_push_frame : forall pool d j, (j < List.length pool)%nat ->
  nth_error (gapply pool (GPush d)) j = nth_error pool j.
Proof. exact gpush_frame. Qed.
Print Assumptions C18_push_frame.

Theorem C18_push_independent : forall pool d r m i f v,
  derived_of pool d = Some r -> (i < List.length pool)%nat ->
  nth_error (gapply (gapply pool (GPush d)) (GSet m i f v)) (List.length pool) = Some r.
Proof. exact gpush_independent. Qed.
Print Assumptions C18_push_independent.

(* the record of a history accepted by the correspondence: every read returned what the method
   returns on the values the objects have after the preceding operations *)
Theorem C18_hist_check_reads : forall steps pool, ghist_check pool steps = true ->
  forall pre q o post rest, steps = pre ++ (GQuery q, o, post) :: rest ->
    query_ok (fold_left gapply (map (fun s : gstep => fst (fst s)) pre) pool) q o = true.
Proof. exact ghist_check_reads. Qed.
Print Assumptions C18_hist_check_reads.

(* ---------------------------------------------------------------------------------------
   Coincidences between derived quantities of two rectangles (Geometry/RectCoincide.v): the second
   rectangle of a pair is built from the first so that they share a point (centre or a corner) and
   a derived quantity (shape, area, transposed shape, width, height, perimeter, aspect ratio).
   --------------------------------------------------------------------------------------- *)
From FrameModel Require Import Geometry.RectCoincide.

Theorem C18_coincide_anchored : forall a rel r t, anchored a r (coincide a rel r t).
Proof. exact coincide_anchored. Qed.
Print Assumptions C18_coincide_anchored.

Theorem C18_coincide_shape : forall a rel r t,
  (rw (coincide a rel r t), rh (coincide a rel r t)) = rel_shape rel (rw r) (rh r) /\
  (let w' := fst (rel_shape rel (rw r) (rh r)) in
   let h' := snd (rel_shape rel (rw r) (rh r)) in
   match rel with
   | SSame => w' = rw r /\ h' = rh r
   | SEqArea k => k <> 0 -> w' * h' = rw r * rh r
   | STransposed => w' = rh r /\ h' = rw r
   | SSameW _ => w' = rw r
   | SSameH _ => h' = rh r
   | SEqPerim _ => w' + h' = rw r + rh r
   | SEqAspect _ => w' * rh r = rw r * h'
   end).
Proof. exact (fun a rel r t => conj (coincide_shape a rel r t) (rel_shape_spec rel (rw r) (rh r))). Qed.
Print Assumptions C18_coincide_shape.

(* two rectangles sharing the centre or a corner overlap in min(w) * min(h) *)
Theorem C18_anchored_overlap : forall a r s, wf r -> wf s -> anchored a r s ->
  area_overlap r s = Qcmin (rw r) (rw s) * Qcmin (rh r) (rh s).
Proof. exact anchored_overlap. Qed.
Print Assumptions C18_anchored_overlap.

(* the overlap is the whole area of a rectangle exactly when it lies inside the other *)
Theorem C18_full_overlap_iff_inside : forall r s, wf r ->
  (area_overlap r s = area r <-> is_inside r s = true).
Proof. exact full_overlap_iff_inside. Qed.
Print Assumptions C18_full_overlap_iff_inside.

(* two rectangles of equal area overlapping in that whole area are the same box *)
Theorem C18_eq_area_full_overlap_same_box : forall r s, wf r -> wf s -> area r = area s ->
  area_overlap r s = area r -> cx r = cx s /\ cy r = cy s /\ rw r = rw s /\ rh r = rh s.
Proof. exact eq_area_full_overlap_same_box. Qed.
Print Assumptions C18_eq_area_full_overlap_same_box.

(* same point, same area, another shape: strictly less than the area *)
Theorem C18_anchored_eq_area_other_shape : forall a r s, wf r -> wf s -> anchored a r s ->
  area r = area s -> rw r <> rw s -> area_overlap r s < area r.
Proof. exact anchored_eq_area_other_shape. Qed.
Print Assumptions C18_anchored_eq_area_other_shape.

(* the hypotheses are satisfiable: a 2x2 square centred on a 4x1 rectangle *)
Theorem C18_coincide_example :
  let r := mkRect (qc 6 1) (qc 15 2) (qc 4 1) (qc 1 1) false false "_" NOPOLY in
  let s := coincide ACentre (SEqArea half) r r in
  geom_eqb s (mkRect (qc 6 1) (qc 15 2) (qc 2 1) (qc 2 1) false false "_" NOPOLY) = true /\
  area r = area s /\ area_overlap r s = qc 2 1.
Proof. exact coincide_example. Qed.
Print Assumptions C18_coincide_example.

(* ---- near-equal region names: compared exactly ---- *)
Theorem C18_region_differs_no_inter : forall r s, region r <> region s -> inter r s = None /\ inter s r = None.
Proof. exact inter_region_differs. Qed.
Print Assumptions C18_region_differs_no_inter.

Theorem C18_region_differs_not_eq : forall r s, region r <> region s -> req r s = false /\ req s r = false.
Proof. exact req_region_differs. Qed.
Print Assumptions C18_region_differs_not_eq.

Theorem C18_near_distinct_neq : forall a b, near_distinct a b = true <-> a <> b.
Proof. exact near_distinct_neq. Qed.
Print Assumptions C18_near_distinct_neq.

(* dsp / DSP: a common area of 4, no intersection in either order, not equal *)
Theorem C18_near_case_example :
  let r := mkRect (qc 2 1) (qc 2 1) (qc 4 1) (qc 4 1) false false "dsp" NOPOLY in
  let s := mkRect (qc 2 1) (qc 2 1) (qc 10 1) (qc 1 1) false false "DSP" NOPOLY in
  inter r s = None /\ inter s r = None /\ req r s = false /\ area_overlap r s = qc 4 1.
Proof. exact near_case_example. Qed.
Print Assumptions C18_near_case_example.
