(* C16 - Pseudo-Boolean expression algebra preserves integer semantics.
   Statements only; every proof is [exact <lemma>]. *)
From Coq Require Import ZArith List Bool String.
From FrameModel Require Import PB.Expr PB.ExprFacts.
Open Scope Z_scope.

(* every expression tree (literals of both polarities, terms, integers, nested
   expressions; +, -, integer * ) evaluates, after normalisation, to its direct
   integer value under every assignment, and the normal form has only positive
   coefficients and no repeated variable *)
Theorem C16_build_eval : forall t a, eval a (build t) = teval a t /\ NF (build t).
Proof. exact build_eval. Qed.
Print Assumptions C16_build_eval.

Theorem C16_add_term_eval : forall a e v s k, eval a (add_term e v s k) = eval a e + k * lit a v s.
Proof. exact add_term_eval. Qed.
Print Assumptions C16_add_term_eval.

Theorem C16_add_expr_eval : forall a e f, eval a (add_expr e f) = eval a e + eval a f.
Proof. exact add_expr_eval. Qed.
Print Assumptions C16_add_expr_eval.

Theorem C16_sub_expr_eval : forall a e f, eval a (sub_expr e f) = eval a e - eval a f.
Proof. exact sub_expr_eval. Qed.
Print Assumptions C16_sub_expr_eval.

Theorem C16_mul_eval : forall a e k, eval a (mul e k) = eval a e * k.
Proof. exact mul_eval. Qed.
Print Assumptions C16_mul_eval.

(* a built inequality holds exactly when the direct comparison holds (all five
   operators and the "==" spelling); its left-hand side is in normal form *)
Theorem C16_ineq_holds_iff : forall a l r op,
  holds a (mk_ineq l r op) <-> cmp_holds op (eval a l) (eval a r).
Proof. exact ineq_holds_iff. Qed.
Print Assumptions C16_ineq_holds_iff.

Theorem C16_ineq_NF : forall l r op, NF l -> NF r -> NF (mkE 0 (il (mk_ineq l r op))).
Proof. exact ineq_NF. Qed.
Print Assumptions C16_ineq_NF.
