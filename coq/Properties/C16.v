(* C16 - Pseudo-Boolean expression algebra preserves integer semantics.
   Statements only; every proof is [exact <lemma>]. *)
From Coq Require Import ZArith List Bool String.
From FrameModel Require Import PB.Expr PB.ExprFacts PB.ExprCanon PB.Dag PB.DagFacts.
Open Scope Z_scope.

(* every expression tree (literals of both polarities, terms, integers, nested
   expressions; +, -, integer * ) evaluates, after normalisation, to its direct
   integer value under every assignment, and the normal form has only positive
   coefficients and no repeated variable *)
Theorem C16_build_eval : forall t a, eval a (build t) = teval a t /\ NF (build t).
Proof. exact build_eval. Qed.
Print Assumptions C16_build_eval.

Theorem C16_add_term_eval : forall a e v s k, eval a (add_term e v s k) = eval a e + k * lit a v s.
Proof. exact add_term_eval. Qed.
Print Assumptions C16_add_term_eval.

Theorem C16_add_expr_eval : forall a e f, eval a (add_expr e f) = eval a e + eval a f.
Proof. exact add_expr_eval. Qed.
Print Assumptions C16_add_expr_eval.

Theorem C16_sub_expr_eval : forall a e f, eval a (sub_expr e f) = eval a e - eval a f.
Proof. exact sub_expr_eval. Qed.
Print Assumptions C16_sub_expr_eval.

Theorem C16_mul_eval : forall a e k, eval a (mul e k) = eval a e * k.
Proof. exact mul_eval. Qed.
Print Assumptions C16_mul_eval.

(* a built inequality holds exactly when the direct comparison holds (all five
   operators and the "==" spelling); its left-hand side is in normal form *)
Theorem C16_ineq_holds_iff : forall a l r op,
  holds a (mk_ineq l r op) <-> cmp_holds op (eval a l) (eval a r).
Proof. exact ineq_holds_iff. Qed.
Print Assumptions C16_ineq_holds_iff.

Theorem C16_ineq_NF : forall l r op, NF l -> NF r -> NF (mkE 0 (il (mk_ineq l r op))).
Proof. exact ineq_NF. Qed.
Print Assumptions C16_ineq_NF.

(* ---- value semantics under REUSE (PB/Dag.v): objects bound to names and used again after other
   objects were derived from them ---- *)

(* running a history of bindings that refer to earlier bindings (a DAG) gives, for EVERY binding,
   exactly the value obtained by building its unfolded tree from fresh leaves: sharing an operand
   between several operations, or using it again later, is unobservable (and a history is
   ill-typed exactly when one of its unfolded trees is) *)
Theorem C16_dag_run_unfold : forall bs,
  run bs = match unfold_all bs with Some ts => build_all ts | None => None end.
Proof. exact dag_run_unfold. Qed.
Print Assumptions C16_dag_run_unfold.

(* C16_build_eval for every DAG: every bound Literal / Term / Expr evaluates, under every
   assignment, to the direct integer value of the tree that built it; every Expr and the left side
   of every Ineq is in normal form; every Ineq holds exactly when the direct comparison of the two
   trees holds (operators and the Ineq constructor, six spellings) *)
Theorem C16_dag_eval : forall bs vs, run bs = Some vs ->
  exists trees, unfold_all bs = Some trees /\
    Forall2 (fun v t => ubuild t = Some v /\
                        forall a, vmean a v = ueval a t /\ vgood v /\ (vholds a v <-> uholds a t)) vs trees.
Proof. exact dag_eval. Qed.
Print Assumptions C16_dag_eval.

(* one tree of the richer language (Literal / Term / int / str leaves, -literal, -term, copies,
   sums, comparisons) *)
Theorem C16_ubuild_sound : forall a t v, ubuild t = Some v ->
  vmean a v = ueval a t /\ vgood v /\ (vholds a v <-> uholds a t).
Proof. exact ubuild_sound. Qed.
Print Assumptions C16_ubuild_sound.

(* the expression trees of C16_build_eval are the histories without reuse *)
Theorem C16_tree_fragment : forall t a,
  ubuild (emb t) = Some (VExpr (build t)) /\ ueval a (emb t) = teval a t.
Proof. exact (fun t a => conj (emb_build t) (emb_eval a t)). Qed.
Print Assumptions C16_tree_fragment.

(* ---- the normal form is canonical (PB/ExprCanon.v) ---- *)

(* every operation keeps the normal form of its left operand, whatever the right operand is *)
Theorem C16_ops_keep_NF : forall e, NF e ->
  (forall v s k, NF (add_term e v s k)) /\ (forall k, NF (add_int e k)) /\
  (forall f, NF (add_expr e f)) /\ (forall f, NF (sub_expr e f)) /\ (forall k, NF (mul e k)).
Proof. exact (fun e H => conj (fun v s k => add_term_NF e v s k H) (conj (fun k => add_int_NF e k H)
  (conj (fun f => add_expr_NF e f H) (conj (fun f => sub_expr_NF e f H) (fun k => mul_NF e k H))))). Qed.
Print Assumptions C16_ops_keep_NF.

(* a normalised expression with the same value under EVERY assignment carries no literal at all:
   "no zero coefficient, no variable twice" leaves no room for terms that cancel *)
Theorem C16_constant_canonical : forall e k, NF e -> (forall a, eval a e = k) -> e = mkE k nil.
Proof. exact constant_canonical. Qed.
Print Assumptions C16_constant_canonical.

(* two expressions mean the same under every assignment exactly when the code's own subtraction
   returns the empty expression (constant 0, no term) *)
Theorem C16_sem_eq_iff_sub_zero : forall e f, NF e ->
  ((forall a, eval a e = eval a f) <-> sub_expr e f = zero).
Proof. exact sem_eq_iff_sub_zero. Qed.
Print Assumptions C16_sem_eq_iff_sub_zero.

(* an inequality between two sides of equal meaning is built with no literal and bound 0,
   for all six operator spellings *)
Theorem C16_ineq_of_equal_sides : forall l r op, NF l -> NF r -> (forall a, eval a l = eval a r) ->
  il (mk_ineq l r op) = nil /\ ir (mk_ineq l r op) = 0.
Proof. exact ineq_of_equal_sides. Qed.
Print Assumptions C16_ineq_of_equal_sides.

(* what cancels leaves nothing behind: e - e, e * 0 and (e + f) - f - e are the empty expression itself,
   not merely expressions that evaluate to 0 *)
Theorem C16_cancellation : forall e f, NF e -> NF f ->
  sub_expr e e = zero /\ mul e 0 = zero /\ sub_expr (sub_expr (add_expr e f) f) e = zero.
Proof. exact (fun e f He Hf => conj (sub_self e He) (conj (mul_zero e He) (add_sub_cancel e f He Hf))). Qed.
Print Assumptions C16_cancellation.
