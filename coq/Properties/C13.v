(* C13 - Force-directed relocation: fixed modules stay, centres stay in the die.
   Statements only; every proof is [exact <lemma>].

   Proof of the LOGICAL SHELL of tools/force/fruchterman_reingold.py for an
   ARBITRARY force law: [force] below is any function (of the iteration number, the
   temperature and the current positions) returning the accumulated displacement
   and the floored norm of every module - f_att, f_rep, die_repelling, the norms and
   the spring constant are inside it.  [A] is everything a module carries besides
   its centre and fixed flag, [B] the nets.  Numbers are exact rationals: what
   binary64 rounding does (finiteness, the (c - D/2) + D/2 round trip) is
   explored by the harness, not proved. *)
From FrameModel Require Import Num.QcTac Force.FR Force.FRFacts Force.FRSeq Force.FRSeqFacts.
Open Scope Qc_scope.

(* fixed modules: the position is never assigned, the returned centre is
   (c - D/2) + D/2 = c and the whole module is returned as it was *)
Theorem C13_fr_fixed : forall (A B : Type) (force : nat -> Qc -> list vec -> nat -> vec * Qc)
    (W H : Qc) (max_iter : nat) (nl : netlist A B) (v : nat) (m : module A) (c : vec),
  nth_error (modules nl) v = Some m -> is_fixed m = true -> centre m = Some c ->
  nth_error (final_pos force W H max_iter nl) v = Some (fst c - W * half, snd c - H * half) /\
  nth_error (modules (fr_layout force W H max_iter nl)) v = Some m.
Proof. exact @fr_fixed. Qed.
Print Assumptions C13_fr_fixed.

(* movable modules: after at least one iteration the centre lies in [0,W] x [0,H],
   wherever it started (also outside the die) and whatever the forces were *)
Theorem C13_fr_in_die : forall (A B : Type) (force : nat -> Qc -> list vec -> nat -> vec * Qc)
    (W H : Qc) (max_iter : nat) (nl : netlist A B) (v : nat) (m : module A),
  0 <= W -> 0 <= H -> max_iter <> O ->
  nth_error (modules nl) v = Some m -> is_fixed m = false ->
  exists c, nth_error (modules (fr_layout force W H max_iter nl)) v = Some (mkMod (Some c) false (payload m))
            /\ in_die W H c.
Proof. exact @fr_in_die. Qed.
Print Assumptions C13_fr_in_die.

(* the invariant holds along the run: the state after any k >= 1 iterations *)
Theorem C13_fr_loop_invariant : forall (force : nat -> Qc -> list vec -> nat -> vec * Qc)
    (W H dt : Qc) (fx : list bool) (k i : nat) (t : Qc) (pos : list vec) (v : nat) (p : vec),
  0 <= W -> 0 <= H -> k <> O -> nth_error fx v = Some false -> nth_error pos v = Some p ->
  exists q, nth_error (iterate force W H dt fx k i t pos) v = Some q /\ in_box W H q.
Proof. exact fr_loop_invariant. Qed.
Print Assumptions C13_fr_loop_invariant.

(* zero iterations: every centre comes back unchanged (a module without a centre
   is placed at the die centre) *)
Theorem C13_fr_zero_iter : forall (A B : Type) (force : nat -> Qc -> list vec -> nat -> vec * Qc)
    (W H : Qc) (nl : netlist A B) (v : nat) (m : module A),
  nth_error (modules nl) v = Some m ->
  nth_error (modules (fr_layout force W H 0 nl)) v =
  Some (mkMod (Some match centre m with Some c => c | None => (W * half, H * half) end)
              (is_fixed m) (payload m)).
Proof. exact @fr_zero_iter. Qed.
Print Assumptions C13_fr_zero_iter.

(* "every module centre is inside the die", with the hypotheses it really needs:
   the code never moves a fixed module, so a fixed module placed outside the die
   stays outside; and with max_iter = 0 nothing is clamped at all *)
Theorem C13_fr_all_in_die : forall (A B : Type) (force : nat -> Qc -> list vec -> nat -> vec * Qc)
    (W H : Qc) (max_iter : nat) (nl : netlist A B),
  0 <= W -> 0 <= H ->
  (forall m c, In m (modules nl) -> centre m = Some c -> is_fixed m = true \/ max_iter = O -> in_die W H c) ->
  forall m', In m' (modules (fr_layout force W H max_iter nl)) ->
  exists c, centre m' = Some c /\ in_die W H c.
Proof. exact @fr_all_in_die. Qed.
Print Assumptions C13_fr_all_in_die.

(* nothing but centres: same modules in the same order (names, areas, rectangles,
   flags are the payload), same fixed flags, same nets *)
Theorem C13_fr_only_centres : forall (A B : Type) (force : nat -> Qc -> list vec -> nat -> vec * Qc)
    (W H : Qc) (max_iter : nat) (nl : netlist A B),
  map payload (modules (fr_layout force W H max_iter nl)) = map payload (modules nl) /\
  map is_fixed (modules (fr_layout force W H max_iter nl)) = map is_fixed (modules nl) /\
  length (modules (fr_layout force W H max_iter nl)) = length (modules nl) /\
  nets (fr_layout force W H max_iter nl) = nets nl.
Proof. exact @fr_only_centres. Qed.
Print Assumptions C13_fr_only_centres.

(* the displacement of one iteration is capped by the temperature (per axis),
   under the code's contract on the norm: nrm >= 1e-6 and nrm >= |disp| *)
Theorem C13_fr_move_capped : forall (W H t : Qc) (p d : vec) (n : Qc),
  0 <= t -> nrm_floor d n -> in_box W H p ->
  Qcabs (fst (move W H t p d n) - fst p) <= t /\ Qcabs (snd (move W H t p d n) - snd p) <= t.
Proof. exact move_capped. Qed.
Print Assumptions C13_fr_move_capped.

(* the two clamps of the move step are independent: each coordinate of the new position is
   its own unclamped value brought into its own interval, whatever happened to the other
   coordinate in the same step *)
Theorem C13_fr_move_axes : forall (W H t : Qc) (p d : vec) (n : Qc), 0 <= W -> 0 <= H ->
  let qx := fst p + fst d / n * Qcmin n t in
  let qy := snd p + snd d / n * Qcmin n t in
  let r := move W H t p d n in
  (qx <= - (W * half) -> fst r = - (W * half)) /\ (W * half <= qx -> fst r = W * half) /\
  (- (W * half) <= qx <= W * half -> fst r = qx) /\
  (qy <= - (H * half) -> snd r = - (H * half)) /\ (H * half <= qy -> snd r = H * half) /\
  (- (H * half) <= qy <= H * half -> snd r = qy).
Proof. exact move_axes. Qed.
Print Assumptions C13_fr_move_axes.

(* leaving through a corner: a movable module that the LAST iteration (temperature tl, from
   the positions pos reached after the k iterations before it) would carry past BOTH borders
   of a corner in the same step comes back with its centre exactly on that corner of the die
   - for any of the four corners, any force law, any number of earlier iterations *)
Theorem C13_fr_last_step_corner : forall (A B : Type) (force : nat -> Qc -> list vec -> nat -> vec * Qc)
    (W H : Qc) (k : nat) (nl : netlist A B) (v : nat) (m : module A) (p : vec) (east north : bool),
  0 <= W -> 0 <= H ->
  nth_error (modules nl) v = Some m -> is_fixed m = false ->
  let fx := map is_fixed (modules nl) in
  let tl := temp_at (t_init W H) (dt_of W H (S k)) k in
  let pos := iterate force W H (dt_of W H (S k)) fx k 0 (t_init W H) (map (recentre W H) (modules nl)) in
  let d := fst (force k tl pos v) in
  let n := snd (force k tl pos v) in
  nth_error pos v = Some p ->
  (if east then W * half <= fst p + fst d / n * Qcmin n tl else fst p + fst d / n * Qcmin n tl <= - (W * half)) ->
  (if north then H * half <= snd p + snd d / n * Qcmin n tl else snd p + snd d / n * Qcmin n tl <= - (H * half)) ->
  nth_error (modules (fr_layout force W H (S k) nl)) v =
  Some (mkMod (Some (if east then W else 0, if north then H else 0)) false (payload m)).
Proof. exact @fr_last_step_corner. Qed.
Print Assumptions C13_fr_last_step_corner.

(* force_algorithm returns the layout of the FIRST spring constant of 0.4 .. 1.5
   attaining the minimal cost, for an arbitrary cost function and force law *)
Theorem C13_fa_argmin : forall (A B : Type) (force : Qc -> nat -> Qc -> list vec -> nat -> vec * Qc)
    (cost : netlist A B -> Qc) (W H : Qc) (max_iter : nat) (nl : netlist A B),
  let kb := best_kappa force cost W H max_iter nl kappas in
  let c k := cost (fr_layout (force k) W H max_iter nl) in
  force_algorithm force cost W H max_iter nl = fr_layout (force kb) W H max_iter nl /\
  In kb kappas /\ (forall k, In k kappas -> c kb <= c k) /\
  exists l1 l2, kappas = l1 ++ kb :: l2 /\ (forall k, In k l1 -> c kb < c k).
Proof. exact @fa_argmin. Qed.
Print Assumptions C13_fa_argmin.

(* the same for any non-empty list of constants (e.g. 0.01, 10) *)
Theorem C13_fa_argmin_on : forall (A B : Type) (force : Qc -> nat -> Qc -> list vec -> nat -> vec * Qc)
    (cost : netlist A B -> Qc) (ks : list Qc) (W H : Qc) (max_iter : nat) (nl : netlist A B),
  ks <> [] ->
  let kb := best_kappa force cost W H max_iter nl ks in
  let c k := cost (fr_layout (force k) W H max_iter nl) in
  force_algorithm_on force cost ks W H max_iter nl = fr_layout (force kb) W H max_iter nl /\
  exists l1 l2, ks = l1 ++ kb :: l2 /\
    (forall k, In k l1 -> c kb < c k) /\ (forall k, In k l2 -> c kb <= c k).
Proof. exact @fa_argmin_on. Qed.
Print Assumptions C13_fa_argmin_on.

(* ---------------------------------------------------------------------------------------
   HISTORIES.  The same Die / Netlist objects are relocated again and again, squared by
   create_squares / Allocation, edited by the caller, deep-copied (Force/FRSeq.v: [op],
   [apply_op], [run_ops]).  The model is a function of values, so a history is a fold; every
   force law and cost function below is arbitrary and may differ from call to call.
   --------------------------------------------------------------------------------------- *)

(* the call at ANY position of ANY history keeps the promises of a single call, taken
   from the value the history has reached: nothing but centres changes, fixed modules
   come back as they were, movable ones are in the die (after >= 1 iteration); the
   caller's own operations change what they say and nothing else ([step_inv]) *)
Theorem C13_seq_every_call : forall (A B : Type) (W H : Qc), 0 <= W -> 0 <= H ->
  forall (pre : list (op A B)) (o : op A B) (s : netlist A B),
  step_inv W H o (run_ops W H pre s) (run_ops W H (pre ++ [o]) s).
Proof. exact @seq_call_at. Qed.
Print Assumptions C13_seq_every_call.

(* ... and so does every call of the history, one after the other *)
Theorem C13_seq_all_calls : forall (A B : Type) (W H : Qc), 0 <= W -> 0 <= H ->
  forall (ops : list (op A B)) (s : netlist A B), hist_inv W H ops s.
Proof. exact @seq_hist_inv. Qed.
Print Assumptions C13_seq_all_calls.

(* force_algorithm at any position of a history: the layout it leaves is the layout of
   the first constant attaining the smallest cost, where the costs are those of the
   layouts computed from the centres AS THEY ARE WHEN THAT CALL STARTS (s0) - not the
   costs of an earlier call on the same object *)
Theorem C13_seq_argmin : forall (A B : Type) (W H : Qc) (pre : list (op A B))
    (force : Qc -> law) (cost : netlist A B -> Qc) (ks : list Qc) (max_iter : nat) (s : netlist A B),
  ks <> [] ->
  let s0 := run_ops W H pre s in
  let kb := best_kappa force cost W H max_iter s0 ks in
  let c k := cost (fr_layout (force k) W H max_iter s0) in
  run_ops W H (pre ++ [Algo force cost ks max_iter]) s = fr_layout (force kb) W H max_iter s0 /\
  exists l1 l2, ks = l1 ++ kb :: l2 /\
    (forall k, In k l1 -> c kb < c k) /\ (forall k, In k l2 -> c kb <= c k).
Proof. exact @seq_argmin_at. Qed.
Print Assumptions C13_seq_argmin.

(* determinism along a history: no hidden state - what the rest of a history does
   depends only on the VALUE reached, not on how it was reached *)
Theorem C13_seq_no_hidden_state : forall (A B : Type) (W H : Qc) (a b : list (op A B)) (s : netlist A B),
  run_ops W H (a ++ b) s = run_ops W H b (run_ops W H a s).
Proof. exact @run_ops_app. Qed.
Print Assumptions C13_seq_no_hidden_state.

(* however often the same netlist is relocated (and copied): payloads (names, areas,
   rectangles - the squares included -, flags), fixed flags, module order and nets are
   those of the start, and a fixed module with a centre is the module it was at the start *)
Theorem C13_seq_only_centres : forall (A B : Type) (W H : Qc), 0 <= W -> 0 <= H ->
  forall (ops : list (op A B)) (s : netlist A B), Forall is_reloc ops ->
  same_but_centres s (run_ops W H ops s) /\ fixed_kept s (run_ops W H ops s).
Proof. exact @seq_only_centres. Qed.
Print Assumptions C13_seq_only_centres.

(* centres in the die after every history that starts in the die and in which the
   callers write centres inside the die; after the first relocation call every module
   has a centre *)
Theorem C13_seq_in_die : forall (A B : Type) (W H : Qc), 0 <= W -> 0 <= H ->
  forall (ops : list (op A B)) (s : netlist A B),
  Forall (op_in_die W H) ops -> centres_in_die W H s ->
  centres_in_die W H (run_ops W H ops s) /\
  (all_centred_in_die W H s \/ Exists is_call ops -> all_centred_in_die W H (run_ops W H ops s)).
Proof. exact @seq_in_die. Qed.
Print Assumptions C13_seq_in_die.
