(* Comparator of the C07 correspondence on histories over shared objects (PB/DagPost.v): store,
   manager and the value of every binding at the end of the history. *)
From Coq Require Import ZArith List Bool String.
From FrameModel Require Import PB.Expr PB.Cnf PB.Amo PB.Robdd PB.Codify PB.Sat PB.Dag PB.DagPost Cases.CmpC07.
Import ListNotations.

Definition c07_dag_check (m0 : memory) (ops : list hop) (vals : list (option pyval)) (o : c07_obs) : bool :=
  match run_hist m0 empty_mgr [] ops with
  | None => false
  | Some (m, s, env, sts) =>
      ovalues_eqb env vals &&
      leqb node_eqb m (m0 ++ o_newmem o) && leqb (leqb lit_eqb) (clauses s) (o_clauses o) &&
      Nat.eqb (auxcount s) (o_aux o) && leqb Nat.eqb (codified s) (o_codified o) &&
      leqb var_eqb (vtable s) (o_vtable o) && leqb status_eqb sts (o_status o)
  end.
Definition c07_dag_show (m0 : memory) (ops : list hop) :=
  match run_hist m0 empty_mgr [] ops with
  | None => None
  | Some (m, s, env, sts) => Some (env, skipn (List.length m0) m, clauses s, auxcount s, codified s, vtable s, sts)
  end.
