(* Comparator of the C07 correspondence on histories over shared objects (PB/DagPost.v): the
   value of every binding at the end of the history (exactly: C16's normal forms up to the order of
   the terms), which posts are accepted, and the generated CNF as in Cases/CmpC07.v (as a set of
   clauses up to the node numbering, else through the assignments that extend). *)
From Coq Require Import ZArith List Bool String.
From FrameModel Require Import PB.Expr PB.Cnf PB.Amo PB.Robdd PB.Codify PB.Sat PB.SatBool PB.Dag PB.DagPost
  Cases.CmpC07Set Cases.CmpC07.
Import ListNotations.

Definition c07_dag_check (m0 : memory) (ops : list hop) (vals : list (option pyval)) (o : c07_obs)
    (sem : c07_sem) : bool :=
  match run_hist m0 empty_mgr [] ops, compile [] [] ops with
  | Some (m, s, env, sts), Some (cps, _, _) =>
      ovalues_eqb env vals && leqb status_eqb sts (o_status o) &&
      (if structural_ok (m0 ++ o_newmem o) m s o then true else sem_ok sem (map fst cps) sts)
  | _, _ => false
  end.
Definition c07_dag_show (m0 : memory) (ops : list hop) :=
  match run_hist m0 empty_mgr [] ops with
  | None => None
  | Some (m, s, env, sts) => Some (env, skipn (List.length m0) m, clauses s, auxcount s, codified s, vtable s, sts)
  end.
