(* Comparators for the C14 correspondence: kernels of tools/spectral/spectral_algorithm.py
   against Spectral/Normalize.v, the driver shell replayed from the recorded arguments of
   normalize(), Spectral.spectral_layout end to end. *)
From FrameModel Require Import Num.QcTac Geometry.Rect Cases.Cmp Spectral.Normalize.
Open Scope Qc_scope.

Definition aclose (tol a b : Qc) : bool := Qcleb (Qcabs (a - b)) tol.
(* relative: k roundings at the magnitude of the exact value (0 must be 0) *)
Definition rclose (k : Z) (q f : Qc) : bool := qclose k q q f.

Definition res_cmp {X} (cmp : X -> X -> bool) (r o : res X) : bool :=
  match r, o with
  | Ok a, Ok b => cmp a b
  | EmptyMin, EmptyMin | ZeroDiv, ZeroDiv | AssertFail, AssertFail => true
  | _, _ => false
  end.

(* orthogonalize: when the orthogonalised row vanishes exactly (a single movable node, parallel
   rows) the exact norm is 0 (ZeroDivisionError in the model) while in binary64 a residue of
   1e-16 survives and the assertion "dotprod < 10e-12" fires instead: both do not return *)
Definition ortho_cmp (tol : Qc) (r o : res (list Qc)) : bool :=
  res_cmp (list_eqb (aclose tol)) r o ||
  match r, o with ZeroDiv, AssertFail => true | _, _ => false end.

(* one call of normalize: input, spans, flags -> observed output *)
Definition norm_ok (thr : Qc) (k : Z) (xs spans : list Qc) (fx : list bool) (o : res (list Qc)) : bool :=
  res_cmp (list_eqb (rclose k)) (normalize thr xs spans fx) o.

(* ---- replaying the driver shell from the recorded arguments of normalize ---- *)
(* per trial: the inputs of the replayed normalize calls in dimension x and in dimension y
   (the first call, the first iterations, the last iteration) *)
Definition trial_rec : Type := (list (list Qc) * list (list Qc))%type.
Definition calls_of (trs : list trial_rec) (tr d : nat) : list (list Qc) :=
  let t := nth tr trs ([], []) in if Nat.eqb d 1 then fst t else snd t.
Definition rnd_of (trs : list trial_rec) (hsx hsy : Qc) (tr d i : nat) : Qc :=
  nth i (nth 0 (calls_of trs tr d) []) 0 + (if Nat.eqb d 1 then hsx else hsy).
Definition produce_of (trs : list trial_rec) (tr d k : nat) (_ : list (list Qc)) (_ : list Qc) : list Qc :=
  nth (S k) (calls_of trs tr d) [].
Definition niter_of (trs : list trial_rec) (tr d : nat) : nat := pred (List.length (calls_of trs tr d)).

(* the input of the FIRST normalize call of a dimension is the model's initial row: given
   entries are "initial - size/2" (random ones are taken from the record) *)
Definition start_ok (tol : Qc) (trs : list trial_rec) (hsx hsy : Qc) (tr d : nat) (fx : list bool) (ini : list Qc) : bool :=
  match init_coord (rnd_of trs hsx hsy) tr d 0 (if Nat.eqb d 1 then hsx else hsy) fx ini with
  | Ok c0 => list_eqb (aclose tol) c0 (nth 0 (calls_of trs tr d) [])
  | _ => false
  end.
Fixpoint starts_ok (tol : Qc) (trs : list trial_rec) (hsx hsy : Qc) (n tr : nat) (fx : list bool) (inix iniy : list Qc) : bool :=
  match n with
  | O => true
  | S n' => start_ok tol trs hsx hsy tr 1 fx inix && start_ok tol trs hsx hsy tr 2 fx iniy &&
            starts_ok tol trs hsx hsy n' (S tr) fx inix iniy
  end.

(* spectral_layout_die: one trial, returned coordinate rows *)
Definition die_ok (thr tol W H : Qc) (radius : list Qc) (fx : list bool) (inix iniy : list Qc)
           (t : trial_rec) (rx ry : list Qc) : bool :=
  match layout_die thr (rnd_of [t] (W * half) (H * half)) (produce_of [t]) (niter_of [t]) 0 W H radius fx inix iniy with
  | Ok (xs, ys) => list_eqb (aclose tol) xs rx && list_eqb (aclose tol) ys ry &&
                   starts_ok tol [t] (W * half) (H * half) 1 0 fx inix iniy
  | _ => false
  end.

(* ---- Spectral.spectral_layout ---- *)
Definition rect_aclose (tol : Qc) (a b : Rect) : bool :=
  aclose tol (cx a) (cx b) && aclose tol (cy a) (cy b) && Qceqb (rw a) (rw b) && Qceqb (rh a) (rh b) &&
  Bool.eqb (fixed a) (fixed b) && Bool.eqb (hard a) (hard b) && String.eqb (region a) (region b) &&
  loc_eqb (rloc a) (rloc b).
Definition vclose14 (tol : Qc) (a b : vec) : bool := aclose tol (fst a) (fst b) && aclose tol (snd a) (snd b).
(* the payload of a module is its radius *)
Definition smod_close (tol : Qc) (a b : smod Qc) : bool :=
  opt_eqb (vclose14 tol) (s_centre a) (s_centre b) &&
  Bool.eqb (s_fixed a) (s_fixed b) && Bool.eqb (s_hard a) (s_hard b) && Bool.eqb (s_terminal a) (s_terminal b) &&
  list_eqb (rect_aclose tol) (s_rects a) (s_rects b) && Qceqb (s_other a) (s_other b).

Definition layout_ok (thr tol W H : Qc) (nf : nat) (ms : list (smod Qc)) (adj : list (list (nat * Qc)))
           (trs : list trial_rec) (out : list (smod Qc)) : bool :=
  match spectral_layout thr (rnd_of trs (W * half) (H * half)) (produce_of trs) (niter_of trs)
                        (fun m => s_other m) W H nf (mkSnet ms adj tt) with
  | Ok o => list_eqb (smod_close tol) (s_mods o) out &&
            starts_ok tol trs (W * half) (H * half) (List.length trs) 0 (map (fun m => s_fixed m) ms)
                      (map (if Nat.eqb nf 0 then cx_of else forget cx_of) ms)
                      (map (if Nat.eqb nf 0 then cy_of else forget cy_of) ms)
  | _ => false
  end.
(* the implementation raised: the model must not return either *)
Definition layout_fails (thr W H : Qc) (nf : nat) (ms : list (smod Qc)) (adj : list (list (nat * Qc)))
           (trs : list trial_rec) : bool :=
  match spectral_layout thr (rnd_of trs (W * half) (H * half)) (produce_of trs) (niter_of trs)
                        (fun m => s_other m) W H nf (mkSnet ms adj tt) with
  | Ok _ => false
  | _ => true
  end.

(* ---- Module.recenter_rectangles driven directly: a history of operations on one hard module ---- *)
(* an axis whose whole computation is exact in binary64 must agree exactly, else within k roundings *)
Definition axis_cmp (exact : bool) (k : Z) (scale q f : Qc) : bool :=
  if exact then Qceqb q f else qclose k scale q f.
Definition rect_cmp_xy (ex ey : bool) (k : Z) (scale : Qc) (a b : Rect) : bool :=
  axis_cmp ex k scale (cx a) (cx b) && axis_cmp ey k scale (cy a) (cy b) && Qceqb (rw a) (rw b) && Qceqb (rh a) (rh b) &&
  Bool.eqb (fixed a) (fixed b) && Bool.eqb (hard a) (hard b) && String.eqb (region a) (region b) &&
  loc_eqb (rloc a) (rloc b).
Definition rc_ok (ex ey : bool) (k : Z) (scale : Qc) (ops : list rc_op) (st : rc_state)
           (o : res (option vec * list Rect)) : bool :=
  match rc_run ops st, o with
  | Ok st', Ok (c, rs) =>
      opt_eqb (pair_eqb Qceqb Qceqb) (rc_centre st') c && list_eqb (rect_cmp_xy ex ey k scale) (rc_rects st') rs
  | EmptyMin, EmptyMin | ZeroDiv, ZeroDiv | AssertFail, AssertFail => true
  | _, _ => false
  end.

(* ---- several spectral_layout calls on one Spectral object ---- *)
(* a call: die, trial count, the recorded trials, the modules observed afterwards (None: the call raised,
   and the history ends there) *)
Definition step_rec : Type := (Qc * Qc * nat * list trial_rec * option (list (smod Qc)))%type.
Fixpoint session_ok (thr tol : Qc) (s : sess Qc unit) (steps : list step_rec) : bool :=
  match steps with
  | [] => true
  | (W, H, nf, trs, o) :: rest =>
      match sess_step thr (rnd_of trs (W * half) (H * half)) (produce_of trs) (niter_of trs) W H nf s, o with
      | Ok s', Some out =>
          list_eqb (smod_close tol) (ss_mods s') out &&
          starts_ok tol trs (W * half) (H * half) (List.length trs) 0 (ss_fx s)
                    (fst (sess_centres nf s)) (snd (sess_centres nf s)) &&
          session_ok thr tol s' rest
      | Ok _, None => false
      | _, Some _ => false
      | _, None => true
      end
  end.
(* the object is built from the observed netlist; the model then runs on ITS OWN state from call to call *)
Definition session_from (thr tol : Qc) (ms : list (smod Qc)) (adj : list (list (nat * Qc))) (steps : list step_rec) : bool :=
  match sess_init (fun m => s_other m) (mkSnet ms adj tt) with
  | Ok s => session_ok thr tol s steps
  | _ => match steps with (_, _, _, _, None) :: _ => true | _ => false end
  end.

(* spectral_layout_die raised before its first normalize call: the model must not return either *)
Definition die_fails (thr W H : Qc) (radius : list Qc) (fx : list bool) (inix iniy : list Qc) (t : trial_rec) : bool :=
  match layout_die thr (rnd_of [t] (W * half) (H * half)) (produce_of [t]) (niter_of [t]) 0 W H radius fx inix iniy with
  | Ok _ => false
  | _ => true
  end.
