(* Comparison of generated CNFs up to what C07 / C08 leave open: the ORDER of the clauses, the
   order of the literals inside a clause, repetitions, and the NUMBERING of the diagram nodes
   (robdd_<id>): the implementation's node ids are translated to the model's through what a node
   IS - its store entry (decision variable, if-child, else-child), children first. *)
From Coq Require Import ZArith List Bool String Arith.
From FrameModel Require Import PB.Cnf PB.Robdd.
Import ListNotations.
Local Open Scope nat_scope.

(* ---- a total order on literals ---- *)
Definition var_cmp (x y : var) : comparison :=
  match x, y with
  | User s, User t => String.compare s t
  | User _, _ => Lt
  | Aux _, User _ => Gt
  | Aux n, Aux m => Nat.compare n m
  | Aux _, Node _ => Lt
  | Node n, Node m => Nat.compare n m
  | Node _, _ => Gt
  end.
Definition lit_cmp (a b : literal) : comparison :=
  match var_cmp (fst a) (fst b) with
  | Eq => Bool.compare (snd a) (snd b)
  | c => c
  end.
Fixpoint list_cmp {A} (cmp : A -> A -> comparison) (a b : list A) : comparison :=
  match a, b with
  | [], [] => Eq
  | [], _ => Lt
  | _, [] => Gt
  | x :: a', y :: b' => match cmp x y with Eq => list_cmp cmp a' b' | c => c end
  end.
Definition leb_of {A} (cmp : A -> A -> comparison) (x y : A) : bool :=
  match cmp x y with Gt => false | _ => true end.

(* ---- merge sort (the algorithm of Coq.Sorting.Mergesort, over a comparison function) ---- *)
Section Sort.
  Context {A : Type} (leb : A -> A -> bool).
  Fixpoint merge (l1 : list A) : list A -> list A :=
    fix merge_aux (l2 : list A) : list A :=
      match l1, l2 with
      | [], _ => l2
      | _, [] => l1
      | a1 :: l1', a2 :: l2' => if leb a1 a2 then a1 :: merge l1' l2 else a2 :: merge_aux l2'
      end.
  Fixpoint merge_list_to_stack (stack : list (option (list A))) (l : list A) : list (option (list A)) :=
    match stack with
    | [] => [Some l]
    | None :: stack' => Some l :: stack'
    | Some l' :: stack' => None :: merge_list_to_stack stack' (merge l' l)
    end.
  Fixpoint merge_stack (stack : list (option (list A))) : list A :=
    match stack with
    | [] => []
    | None :: stack' => merge_stack stack'
    | Some l :: stack' => merge l (merge_stack stack')
    end.
  Fixpoint iter_merge (stack : list (option (list A))) (l : list A) : list A :=
    match l with
    | [] => merge_stack stack
    | a :: l' => iter_merge (merge_list_to_stack stack [a]) l'
    end.
  Definition msort (l : list A) : list A := iter_merge [] l.
End Sort.

(* drop adjacent repetitions of a sorted list *)
Fixpoint dedupe {A} (eqb : A -> A -> bool) (l : list A) : list A :=
  match l with
  | [] => []
  | x :: r => match r with
              | y :: _ => if eqb x y then dedupe eqb r else x :: dedupe eqb r
              | [] => [x]
              end
  end.
Fixpoint list_eqb {A} (eqb : A -> A -> bool) (a b : list A) : bool :=
  match a, b with
  | [], [] => true
  | x :: a', y :: b' => eqb x y && list_eqb eqb a' b'
  | _, _ => false
  end.

Definition canon_clause (c : clause) : clause := dedupe lit_eqb (msort (leb_of lit_cmp) c).
Definition canon_cnf (f : cnf) : cnf :=
  dedupe (list_eqb lit_eqb) (msort (leb_of (list_cmp lit_cmp)) (map canon_clause f)).
(* the two CNFs are the same SET of clauses, each clause taken as a SET of literals *)
Definition cnf_seteqb (f g : cnf) : bool := list_eqb (list_eqb lit_eqb) (canon_cnf f) (canon_cnf g).
Definition vars_seteqb (a b : list var) : bool :=
  let c l := dedupe var_eqb (msort (leb_of var_cmp) l) in list_eqb var_eqb (c a) (c b).
Definition nats_seteqb (a b : list nat) : bool :=
  let c l := dedupe Nat.eqb (msort Nat.leb l) in list_eqb Nat.eqb (c a) (c b).

(* ---- translation of the implementation's node ids ---- *)
(* [phi]: for the implementation's ids 2, 3, ... in order, the model's id of the same node *)
Definition phi_get (phi : list nat) (id : nat) : option nat :=
  match id with 0 => Some 0 | 1 => Some 1 | S (S j) => nth_error phi j end.
Fixpoint node_map_from (mm : memory) (mi : memory) (phi : list nat) : option (list nat) :=
  match mi with
  | [] => Some phi
  | (v, hi, lo) :: r =>
      match phi_get phi hi, phi_get phi lo with
      | Some hi', Some lo' =>
          match find_node (v, hi', lo') mm 2 with
          | Some id => node_map_from mm r (phi ++ [id])
          | None => None
          end
      | _, _ => None               (* a child that is not stored before its parent *)
      end
  end.
(* [Some phi]: every node of the implementation's store [mi] is a node of the model's store [mm],
   no two of them the same node, and the stores have the same size: the same set of nodes *)
Definition node_map (mm mi : memory) : option (list nat) :=
  match node_map_from mm mi [] with
  | Some phi =>
      if Nat.eqb (List.length mi) (List.length mm) &&
         Nat.eqb (List.length (dedupe Nat.eqb (msort Nat.leb phi))) (List.length phi)
      then Some phi else None
  | None => None
  end.
Definition ren_var (phi : list nat) (v : var) : var :=
  match v with
  | Node id => match phi_get phi id with Some id' => Node id' | None => Node id end
  | _ => v
  end.
Definition ren_cnf (phi : list nat) (f : cnf) : cnf :=
  map (map (fun l : literal => (ren_var phi (fst l), snd l))) f.
Definition nodes_known (phi : list nat) (f : cnf) : bool :=
  forallb (forallb (fun l : literal => match fst l with
                                        | Node id => match phi_get phi id with Some _ => true | None => false end
                                        | _ => true end)) f.

(* ---- the numbering of the at-most-one links (aux_<n>) ----
   An auxiliary variable is identified by what it is linked to: its signature is the set of the
   clauses it occurs in, with every auxiliary variable (itself included) written as Aux 0 and its own
   polarity kept apart.  The auxiliaries are renumbered 1, 2, ... in the order of their signatures.
   Equal signatures (the same group posted twice ...) leave the order open: the comparison may then
   fail although the CNFs are isomorphic, and the semantic comparison decides. *)
Definition is_aux (v : var) : bool := match v with Aux _ => true | _ => false end.
Definition blur (l : literal) : literal := match fst l with Aux _ => (Aux 0, snd l) | _ => l end.
Definition aux_sig (f : cnf) (n : nat) : cnf :=
  canon_cnf (flat_map (fun c : clause =>
     flat_map (fun l : literal =>
                 match fst l with
                 | Aux m => if Nat.eqb m n
                            then [((Node (if snd l then 1 else 0), true) : literal) :: map blur c]  (* own polarity tagged *)
                            else @nil clause
                 | _ => @nil clause end) c) f).
Definition aux_names (f : cnf) : list nat :=
  dedupe Nat.eqb (msort Nat.leb (flat_map (fun c : clause =>
    flat_map (fun l : literal => match fst l with Aux m => [m] | _ => @nil nat end) c) f)).
Definition sig_cmp (a b : cnf * nat) : comparison := list_cmp (list_cmp lit_cmp) (fst a) (fst b).
(* old number -> new number *)
Definition aux_map (f : cnf) : list (nat * nat) :=
  let sorted := msort (leb_of sig_cmp) (map (fun n => (aux_sig f n, n)) (aux_names f)) in
  combine (map snd sorted) (seq 1 (List.length sorted)).
Fixpoint assoc_nat (l : list (nat * nat)) (n : nat) : nat :=
  match l with
  | [] => n
  | (k, v) :: r => if Nat.eqb k n then v else assoc_nat r n
  end.
Definition ren_aux_var (am : list (nat * nat)) (v : var) : var :=
  match v with Aux n => Aux (assoc_nat am n) | _ => v end.
Definition ren_aux (am : list (nat * nat)) (f : cnf) : cnf :=
  map (map (fun l : literal => (ren_aux_var am (fst l), snd l))) f.
(* the same set of clauses up to the numbering of the auxiliaries; also compares the registered
   names (as sets) under the same renumbering *)
Definition cnf_seteqb_aux (f g : cnf) (vf vg : list var) : bool :=
  let af := aux_map f in let ag := aux_map g in
  cnf_seteqb (ren_aux af f) (ren_aux ag g) &&
  vars_seteqb (map (ren_aux_var af) vf) (map (ren_aux_var ag) vg).

Example aux_example :   (* the two links of two chained groups numbered the other way round *)
  cnf_seteqb_aux
    [[(User "a", false); (Aux 1, false)]; [(Aux 1, true); (User "b", false)];
     [(User "c", false); (Aux 2, false)]; [(Aux 2, true); (User "d", false)]]%string
    [[(User "c", false); (Aux 1, false)]; [(Aux 1, true); (User "d", false)];
     [(Aux 2, true); (User "b", false)]; [(User "a", false); (Aux 2, false)]]%string
    [Aux 1; Aux 2; User "a"]%string [User "a"; Aux 2; Aux 1]%string = true.
Proof. reflexivity. Qed.

Example canon_example :
  cnf_seteqb [[(User "b", true); (Node 3, false)]; [(Aux 1, true)]; [(Node 3, false); (User "b", true); (User "b", true)]]%string
             [[(Aux 1, true)]; [(Node 3, false); (User "b", true)]]%string = true.
Proof. reflexivity. Qed.
Example canon_example_neg :
  cnf_seteqb [[(User "b", true); (Node 3, false)]]%string [[(User "b", true); (Node 3, true)]]%string = false.
Proof. reflexivity. Qed.
Example msort_example : msort Nat.leb [5; 1; 4; 1; 3; 9; 2; 6] = [1; 1; 2; 3; 4; 5; 6; 9].
Proof. reflexivity. Qed.
(* the same diagram built children-in-the-other-order gets the model's ids *)
Example node_map_example :
  node_map [("y", 1, 0); ("z", 1, 0); ("x", 2, 3)]%string [("z", 1, 0); ("y", 1, 0); ("x", 3, 2)]%string = Some [3; 2; 4].
Proof. reflexivity. Qed.
