(* Comparators and compact input notation for the C15 correspondence files. *)
From Coq Require Import List Bool Arith String Ascii.
From FrameModel Require Import Strop.Strop.
Import ListNotations.

Definition r := mkSR.

Fixpoint row_of (s : string) : list bool :=
  match s with
  | EmptyString => []
  | String c t => Ascii.eqb c "1"%char :: row_of t
  end.
Definition mat (rows : list string) : BoolMatrix := map row_of rows.

Fixpoint leqb {A} (f : A -> A -> bool) (a b : list A) : bool :=
  match a, b with
  | [], [] => true
  | x :: a', y :: b' => f x y && leqb f a' b'
  | _, _ => false
  end.

(* the constructor's outcome: None (assertion) or, for every instance in trunk
   order, the rectangles in the order rectangles() yields them; isb is the
   implementation's own is_strop *)
Definition ck (rows : list string) (expected : option (list (list SRect))) (isb : bool) : bool :=
  match strop (mat rows), expected with
  | None, None => true
  | Some l, Some e => leqb (leqb srect_eqb) (map rectangles l) e
                      && Bool.eqb (is_strop (mat rows)) isb
  | _, _ => false
  end.

(* ---------- polygon level ---------- *)
From FrameModel Require Import Num.QcTac Strop.Polygon.

Definition q (n : BinNums.Z) (d : BinNums.positive) : Qc := qc n d.
Arguments q n%Z d%positive.

Definition rect4_eqb (a b : Rect4) : bool :=
  let '(a1, a2, a3, a4) := a in let '(b1, b2, b3, b4) := b in
  Qceqb a1 b1 && Qceqb a2 b2 && Qceqb a3 b3 && Qceqb a4 b4.

(* strop_decomposition: None (an assertion) or the [cx, cy, w, h] list, which must be the
   rectangle list of one of the model's instances (the choice among instances follows
   Python set iteration order) *)
Definition ckp (vs : list Pt) (expected : option (list Rect4)) : bool :=
  match strop_decomposition_all vs, expected with
  | None, None => true
  | Some alls, Some e => existsb (fun l => leqb rect4_eqb l e) alls
  | _, _ => false
  end.

(* the same for decimal inputs: each of the four numbers within [tol] of the model's exact value *)
Definition rect4_close (tol : Qc) (a b : Rect4) : bool :=
  let '(a1, a2, a3, a4) := a in let '(b1, b2, b3, b4) := b in
  Qcleb (Qcabs (a1 - b1)) tol && Qcleb (Qcabs (a2 - b2)) tol &&
  Qcleb (Qcabs (a3 - b3)) tol && Qcleb (Qcabs (a4 - b4)) tol.

Definition ckpc (tol : Qc) (vs : list Pt) (expected : option (list Rect4)) : bool :=
  match strop_decomposition_all vs, expected with
  | None, None => true
  | Some alls, Some e => existsb (fun l => leqb (rect4_close tol) l e) alls
  | _, _ => false
  end.

(* is_point_inside_polygon on a list of points *)
Definition cki (vs : list Pt) (pts : list (Pt * bool)) : bool :=
  forallb (fun pb => Bool.eqb (point_inside (fst pb) vs) (snd pb)) pts.

(* ---------- matrices given as text (code points) ---------- *)
From Coq Require Import NArith.
From FrameModel Require Import Strop.Text.

Definition ckt (text : list N) (expected : option (list (list SRect))) (isb : bool) : bool :=
  match strop_text text, expected with
  | None, None => true
  | Some l, Some e => leqb (leqb srect_eqb) (map rectangles l) e
                      && Bool.eqb (match l with [] => false | _ => true end) isb
  | _, _ => false
  end.

(* ---------- vertex lists with their input form ---------- *)
From FrameModel Require Import Strop.PolygonForms.
Definition vp := VPoint.
Definition vr := VRow.
Definition ckf (vs : list Vertex) (expected : option (list Rect4)) : bool :=
  match decomposition_of_forms vs, expected with
  | None, None => true
  | Some alls, Some e => existsb (fun l => leqb rect4_eqb l e) alls
  | _, _ => false
  end.
Definition ckfc (tol : Qc) (vs : list Vertex) (expected : option (list Rect4)) : bool :=
  match decomposition_of_forms vs, expected with
  | None, None => true
  | Some alls, Some e => existsb (fun l => leqb (rect4_close tol) l e) alls
  | _, _ => false
  end.
