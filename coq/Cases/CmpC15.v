(* Comparators and compact input notation for the C15 correspondence files. *)
From Coq Require Import List Bool Arith String Ascii.
From FrameModel Require Import Strop.Strop.
Import ListNotations.

Definition r := mkSR.

Fixpoint row_of (s : string) : list bool :=
  match s with
  | EmptyString => []
  | String c t => Ascii.eqb c "1"%char :: row_of t
  end.
Definition mat (rows : list string) : BoolMatrix := map row_of rows.

Fixpoint leqb {A} (f : A -> A -> bool) (a b : list A) : bool :=
  match a, b with
  | [], [] => true
  | x :: a', y :: b' => f x y && leqb f a' b'
  | _, _ => false
  end.

(* the constructor's outcome: None (assertion) or, for every instance in trunk
   order, the rectangles in the order rectangles() yields them; isb is the
   implementation's own is_strop *)
Definition ck (rows : list string) (expected : option (list (list SRect))) (isb : bool) : bool :=
  match strop (mat rows), expected with
  | None, None => true
  | Some l, Some e => leqb (leqb srect_eqb) (map rectangles l) e
                      && Bool.eqb (is_strop (mat rows)) isb
  | _, _ => false
  end.
