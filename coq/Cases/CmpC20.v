(* Comparators and probe-level models of the C20 correspondence (harness/props/c20.py). *)
From Coq Require Import ZArith List Bool String.
From FrameModel Require Import Num.QcTac Geometry.Rect Cases.Cmp Cases.CmpAlloc Stog.CreateStog History.State History.StateFacts.
From FrameModel Require Alloc.Alloc Die.DieModel.
Import ListNotations.
Open Scope Qc_scope.

(* ---- the tolerance trace: first writer wins, the code's formulas ---- *)
Inductive hsum :=
| HNetlist (smallest : option Qc)       (* Netlist: smallest distance (None: no dimension at all) *)
| HDie (w h : Qc)                        (* Die: width, height *)
| HAlloc (w h : Qc).                     (* Allocation: bounding box *)
Definition hcand (h : hsum) : option Qc :=
  match h with
  | HNetlist (Some d) => Some (d * tiny)
  | HNetlist None => None
  | HDie w h => Some (Qcmin w h * die_tiny)
  | HAlloc w h => Some (tiny * Qcmin w h)
  end.
(* one operation may run several constructors (a die with its netlist) *)
Fixpoint first_cand (l : list hsum) : option Qc :=
  match l with
  | [] => None
  | h :: r => match hcand h with Some c => Some c | None => first_cand r end
  end.
Definition eps_pair_eqb (a b : Qc * Qc) : bool := Qceqb (fst a) (fst b) && Qceqb (snd a) (snd b).
(* observed value against the model's: the product within 4 roundings, the area epsilon is the square root of
   the distance epsilon within 16 roundings of its square *)
Definition installed_ok (c : Qc) (o : Qc * Qc) : bool :=
  qclose 4 c c (fst o) && qclose 16 (fst o) (snd o * snd o) (fst o) && Qcleb 0 (snd o).
Fixpoint trace_ok (st : option (Qc * Qc)) (hs : list (list hsum)) (obs : list (option (Qc * Qc))) : bool :=
  match hs, obs with
  | [], [] => true
  | h :: hs', o :: obs' =>
      match st with
      | Some e => opt_eqb eps_pair_eqb o (Some e) && trace_ok st hs' obs'
      | None =>
          match first_cand h, o with
          | None, None => trace_ok None hs' obs'
          | Some c, Some p => installed_ok c p && trace_ok (Some p) hs' obs'
          | _, _ => false
          end
      end
  | _, _ => false
  end.

(* ---- orthogon recognition of a hard module: the overlap assertion, then create_stog ---- *)
Definition stog_out (eps aeps : Qc) (rs : list Rect) : option (bool * list Rect) :=
  if DieModel.no_overlaps aeps rs then create_stog eps aeps rs else None.
Definition stog_same (e1 a1 e2 a2 : Qc) (rs : list Rect) : bool :=
  opt_eqb (pair_eqb Bool.eqb (list_eqb rect_eqb)) (stog_out e1 a1 rs) (stog_out e2 a2 rs).
Definition stog_robust (lo hi alo ahi : Qc) (rs : list Rect) : bool :=
  robust_pairs alo ahi rs && robust_stog lo hi alo ahi rs.

(* ---- allocation: the constructor, then every step of the run ---- *)
Fixpoint alloc_steps (eps aeps q : Qc) (ops : list Alloc.op) (cur : option (list Alloc.cell))
  : list (option (list Alloc.cell)) :=
  match ops with
  | [] => []
  | o :: r =>
      match cur with
      | None => []
      | Some cs => let nxt := Alloc.run_op eps aeps q o cs in nxt :: alloc_steps eps aeps q r nxt
      end
  end.
Definition alloc_trace (eps aeps q : Qc) (ops : list Alloc.op) (cells : list Alloc.cell) :=
  let c0 := Alloc.mk_allocation aeps cells in c0 :: alloc_steps eps aeps q ops c0.
Definition alloc_same (e1 a1 e2 a2 q : Qc) (ops : list Alloc.op) (cells : list Alloc.cell) : bool :=
  list_eqb (opt_eqb cells_eqb) (alloc_trace e1 a1 q ops cells) (alloc_trace e2 a2 q ops cells).

(* robust along the run: the predicate of C20_eps_insensitive_alloc_run *)
Definition alloc_robust (lo hi alo ahi q : Qc) (ops : list Alloc.op) (cells : list Alloc.cell) : bool :=
  robust_alloc lo hi alo ahi q ops cells.

(* ---- die ---- *)
Definition reason_eqb (a b : DieModel.reason) : bool :=
  match a, b with
  | DieModel.RParse, DieModel.RParse | DieModel.ROutside, DieModel.ROutside
  | DieModel.ROverlap, DieModel.ROverlap | DieModel.RArea, DieModel.RArea
  | DieModel.RCover, DieModel.RCover => true
  | _, _ => false
  end.
Definition result_eqb (a b : DieModel.result) : bool :=
  match a, b with
  | DieModel.Reject x, DieModel.Reject y => reason_eqb x y
  | DieModel.Accept g s b f, DieModel.Accept g' s' b' f' =>
      list_eqb rect_eqb g g' && list_eqb rect_eqb s s' && list_eqb rect_eqb b b' && list_eqb rect_eqb f f'
  | _, _ => false
  end.
Definition die_same (e1 a1 e2 a2 deps tin : Qc) (d : DieModel.desc) : bool :=
  result_eqb (DieModel.die_model e1 a1 deps tin d) (DieModel.die_model e2 a2 deps tin d).
(* the predicate of C20_eps_insensitive_die_model *)
Definition die_robust (lo hi alo ahi deps tin : Qc) (d : DieModel.desc) : bool := robust_die lo hi alo ahi d.

(* ---- objects built from default arguments; Strop with default sizes ---- *)
(* the model's prediction does not mention the history: whatever was executed before, the default objects are the
   import-time ones (StateFacts.defaults_never_written), so the observed steps - alone and after the history - must
   equal the model's steps from [dflt_init] *)
From FrameModel Require Cases.CmpC15.
Definition dout_eqb (a b : dout) : bool :=
  match a, b with
  | DOIneq x, DOIneq y => Expr.ineq_eqb x y
  | DOExpr x, DOExpr y => Expr.expr_eqb x y
  | _, _ => false
  end.
Definition defaults_ck (steps : list dstep) (observed : list dout) : bool :=
  list_eqb dout_eqb (snd (dsteps_run dflt_init steps)) observed.

Definition sr4 (x : nat * nat * nat * nat) : SP.SRect := let '(a, b, c, d) := x in SP.mkSR a b c d.
Definition strop_ck (rows : list string) (h w : option (list Qc))
  (expected : option (list (list (nat * nat * nat * nat)) * bool * list Qc * list Qc)) : bool :=
  match strop_run dflt_init (CmpC15.mat rows) h w, expected with
  | None, None => true
  | Some (l, isb, hh, ww), Some (e, isb', hh', ww') =>
      CmpC15.leqb (CmpC15.leqb SP.srect_eqb) (map SP.rectangles l) (map (map sr4) e) &&
      Bool.eqb isb isb' && list_eqb Qceqb hh hh' && list_eqb Qceqb ww ww'
  | _, _ => false
  end.
