(* Comparators for the C08 correspondence: definecoords, the clause list of solve,
   the value solve returns for the solver's model, and (small grids) the set of
   projected models against the specification [shape]. *)
From Coq Require Import ZArith List Bool String Arith.
From FrameModel Require Import Num.QcTac PB.Expr PB.Cnf PB.Amo PB.Robdd PB.Codify PB.Sat Cases.Cmp Cases.CmpC07Set Cases.CmpC07
  RectSearch.Coords RectSearch.Names RectSearch.Encode RectSearch.Registry RectSearch.Shapes RectSearch.SelectBox.
Import ListNotations.
Local Open Scope nat_scope.

Definition pair_qeqb (a b : Qc * Qc) : bool := Qceqb (fst a) (fst b) && Qceqb (snd a) (snd b).
Definition box_eqb (a b : box) : bool :=
  match a, b with (x0, y0, x1, y1), (x0', y0', x1', y1') =>
    Qceqb x0 x0' && Qceqb y0 y0' && Qceqb x1 x1' && Qceqb y1 y1' end.
Definition obox_eqb (a b : option box) : bool :=
  match a, b with Some x, Some y => box_eqb x y | None, None => true | _, _ => false end.

Record c08_obs := mkObs8 {
  o_xs : list Qc; o_ys : list Qc;
  o_prevx : dict; o_nextx : dict; o_prevy : dict; o_nexty : dict;
  o_keyerror : bool;             (* solve raised KeyError *)
  o_clauses : cnf;               (* the manager's clause list after solve, names mapped *)
  o_sat : bool;                  (* the solver found a model *)
  o_true : list var;             (* the variables that are 1 in SATManager.model *)
  o_cost1 : Z;                   (* first component of the returned pair *)
  o_rects : list (option box);
  o_vtable : list var;           (* SATManager.vtable[1:]: the registered names in order, names mapped *)
  o_newmem : list node           (* the store entries solve appended (the diagram of the cost bound), names mapped *)
}.

Definition coords_check (inp : problem) (o : c08_obs) : bool :=
  let C := definecoords inp in
  leqb Qceqb (xcoords C) (o_xs o) && leqb Qceqb (ycoords C) (o_ys o) &&
  leqb pair_qeqb (prev_x C) (o_prevx o) && leqb pair_qeqb (next_x C) (o_nextx o) &&
  leqb pair_qeqb (prev_y C) (o_prevy o) && leqb pair_qeqb (next_y C) (o_nexty o).

Definition result_eqb (r : result) (sat : bool) (c1 : Z) (rs : list (option box)) : bool :=
  match r with
  | Insat => negb sat
  | Found c rects => sat && Z.eqb c c1 && leqb obox_eqb rects rs
  end.

(* the implementation's formula is the model's: the same SET of clauses (each a set of literals)
   and the same set of registered names, up to the numbering of the diagram nodes (translated
   through the store entries) and of the at-most-one links - C08 constrains neither the order in
   which clauses are emitted nor internal numberings *)
Definition formula_same (m0 m : memory) (s : mgr) (o : c08_obs) : bool :=
  match node_map m (m0 ++ o_newmem o) with
  | None => false
  | Some phi =>
      nodes_known phi (o_clauses o) &&
      cnf_seteqb_aux (clauses s) (ren_cnf phi (o_clauses o)) (vtable s) (map (ren_var phi) (o_vtable o))
  end.

(* [models_ok]: when the formula differs in form, whether the enumeration of ALL its models (small
   grids, c08_models_check below) agreed with the specification - the harness passes the result *)
Definition c08_check (mode : border_mode) (inp : problem) (k : nat) (factor ratio : Qc) (bound : Z)
    (m0 : memory) (o : c08_obs) (models_ok : bool) : bool :=
  coords_check inp o &&
  (* [encode_reg] = [encode] with the variable registrations (Registry.encode_reg_encode) *)
  match encode_reg mode inp k factor ratio bound m0 with
  | None => o_keyerror o
  | Some (m, s) =>
      negb (o_keyerror o) && (formula_same m0 m s o || models_ok) &&
      result_eqb (result_of inp k factor ratio
                    (if o_sat o then Some (fun v => existsb (var_eqb v) (o_true o)) else None))
                 (o_sat o) (o_cost1 o) (o_rects o)
  end.

(* the quality solve returns (one float division: 2 roundings allowed; exact when the model says 0),
   and the theoretical area main hands to solve *)
Definition c08_quality_check (inp : problem) (factor ratio : Qc) (tba : Z) (sat : bool) (trues : list var)
    (q : Qc) : bool :=
  Z.eqb tba (theoretical_area inp factor) &&
  let qm := quality_of inp factor ratio tba (if sat then Some (fun v => existsb (var_eqb v) trues) else None) in
  qclose 2 qm qm q.

(* rect_io.select_box on the entries get_alloc produced: the list of cells, exactly *)
Definition cell_eqb (a b : cell) : bool :=
  Qceqb (cx1 a) (cx1 b) && Qceqb (cy1 a) (cy1 b) && Qceqb (cx2 a) (cx2 b) && Qceqb (cy2 a) (cy2 b) && Qceqb (cp a) (cp b).
Definition c08_select_check (sel : string) (al : list arect) (got : problem) : bool :=
  leqb cell_eqb (select_box sel al) got.

(* ---- the projected models of a small instance against the specification ---- *)
Definition sigma_bits (M : list (list bool)) (i b : nat) : bool := nth b (nth i M []) false.
Definition c08_models_check (inp : problem) (k : nat) (factor ratio : Qc) (bound : Z)
    (models : list (list (list bool))) : bool :=
  let C := definecoords inp in
  forallb (fun M => shapeb k inp (sigma_bits M) &&
                    (bound <=? cost_of inp factor ratio (selected k (sigma_bits M)))%Z) models &&
  Nat.eqb (List.length models)
          (List.length (filter (fun Rs => (bound <=? cost_of inp factor ratio (selected k (sigma_of C inp Rs)))%Z)
                               (enum_shapes (ncols C) (nrows C) k))).

(* short constructors for the generated case files *)
Definition vC (i b : nat) : var := User (name (VCell i b)).
Definition vU (b : nat) : var := User (name (VSel b)).
Definition vx (i j : nat) : var := User (name (VxL i j)).
Definition vX (i j : nat) : var := User (name (VxB i j)).
Definition vy (i j : nat) : var := User (name (VyL i j)).
Definition vY (i j : nat) : var := User (name (VyB i j)).
Definition vN (i : nat) : var := User (name (VDir i DN)).
Definition vS (i : nat) : var := User (name (VDir i DS)).
Definition vE (i : nat) : var := User (name (VDir i DE)).
Definition vW (i : nat) : var := User (name (VDir i DW)).
Definition P (v : var) : literal := (v, true).
Definition N (v : var) : literal := (v, false).
