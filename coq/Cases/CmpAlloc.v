(* Comparators for allocation cells (correspondence files of C02/C12/C03). *)
From FrameModel Require Import Num.QcTac Geometry.Rect Cases.Cmp Alloc.Alloc Alloc.Hist.
Open Scope Qc_scope.

(* m * 2^e: how the correspondence files write binary64 values of extreme magnitude (1e308, 5e-324) - a decimal
   literal of 300 digits takes Coq a quarter of a second to read *)
Definition qdy (m e : Z) : Qc :=
  if (0 <=? e)%Z then Q2Qc (inject_Z (m * 2 ^ e)) else Q2Qc (m # Z.to_pos (2 ^ (- e))).

Definition alloc_eqb (a b : alloc) : bool :=
  list_eqb (fun p q => String.eqb (fst p) (fst q) && Qceqb (snd p) (snd q)) a b.
Definition cell_eqb (a b : cell) : bool :=
  rect_eqb (crect a) (crect b) && alloc_eqb (calloc a) (calloc b) && Nat.eqb (cdepth a) (cdepth b).
Definition cells_eqb := list_eqb cell_eqb.
Definition center_close (k : Z) (scale : Qc) (p : Qc * Qc) (x y : Qc) : bool :=
  qclose k scale (fst p) x && qclose k scale (snd p) y.

(* ---- comparison up to the order of the cells (C02 / C12 constrain the set of cells, not their position in
   Allocation.allocations, nor the order of the keys of an occupancy map) ---- *)
Definition alloc_same (a b : alloc) : bool :=
  Nat.eqb (List.length a) (List.length b) &&
  forallb (fun p => match lookup (fst p) b with Some v => Qceqb v (snd p) | None => false end) a.
Definition cell_same (a b : cell) : bool :=
  rect_eqb (crect a) (crect b) && alloc_same (calloc a) (calloc b) && Nat.eqb (cdepth a) (cdepth b).
(* cells of an allocation do not overlap, so (cx, cy) orders them totally *)
Definition cell_leb (a b : cell) : bool :=
  Qcltb (cx (crect a)) (cx (crect b)) ||
  (Qceqb (cx (crect a)) (cx (crect b)) && Qcleb (cy (crect a)) (cy (crect b))).
Fixpoint insert_cell (x : cell) (l : list cell) : list cell :=
  match l with
  | [] => [x]
  | y :: r => if cell_leb x y then x :: l else y :: insert_cell x r
  end.
Definition sort_cells (l : list cell) : list cell := fold_right insert_cell [] l.
Definition cells_same (a b : list cell) : bool := list_eqb cell_same (sort_cells a) (sort_cells b).

(* observations of a history (Alloc/Hist.v): exact, centres within k roundings; lists of cells, of modules and of
   fixed cells are compared as sets *)
Definition areas_same (scale : Qc) (cells : list cell) (b : list (string * Qc * (Qc * Qc))) : bool :=
  Nat.eqb (List.length (module_names cells)) (List.length b) &&
  forallb (fun y => existsb (String.eqb (fst (fst y))) (module_names cells) &&
                    Qceqb (area_of (fst (fst y)) cells) (snd (fst y)) &&
                    center_close 8 scale (center_of (fst (fst y)) cells) (fst (snd y)) (snd (snd y))) b.
Definition areas_eqb (scale : Qc) (a b : list (string * Qc * (Qc * Qc))) : bool :=
  Nat.eqb (List.length a) (List.length b) &&
  forallb (fun y => existsb (fun x => String.eqb (fst (fst x)) (fst (fst y)) && Qceqb (snd (fst x)) (snd (fst y)) &&
                                      center_close 8 scale (snd x) (fst (snd y)) (snd (snd y))) a) b.
Definition centres_same (a b : list (Qc * Qc)) : bool :=
  Nat.eqb (List.length a) (List.length b) &&
  forallb (fun y => existsb (fun x => Qceqb (fst x) (fst y) && Qceqb (snd x) (snd y)) a) b.
Definition hobs_eqb (scale : Qc) (a b : hobs) : bool :=
  match a, b with
  | ONew x, ONew y => opt_eqb cells_same x y
  | OFixed x, OFixed y => list_eqb centres_same x y
  | OBool x, OBool y => Bool.eqb x y
  | ONat x, ONat y => Nat.eqb x y
  | OAreas x, OAreas y => areas_eqb scale x y
  | _, _ => false
  end.
