(* Comparators for allocation cells (correspondence files of C02/C12/C03). *)
From FrameModel Require Import Num.QcTac Geometry.Rect Cases.Cmp Alloc.Alloc Alloc.Hist.
Open Scope Qc_scope.

Definition alloc_eqb (a b : alloc) : bool :=
  list_eqb (fun p q => String.eqb (fst p) (fst q) && Qceqb (snd p) (snd q)) a b.
Definition cell_eqb (a b : cell) : bool :=
  rect_eqb (crect a) (crect b) && alloc_eqb (calloc a) (calloc b) && Nat.eqb (cdepth a) (cdepth b).
Definition cells_eqb := list_eqb cell_eqb.
Definition center_close (k : Z) (scale : Qc) (p : Qc * Qc) (x y : Qc) : bool :=
  qclose k scale (fst p) x && qclose k scale (snd p) y.

(* observations of a history (Alloc/Hist.v): exact, centres within k roundings *)
Definition areas_eqb (scale : Qc) (a b : list (string * Qc * (Qc * Qc))) : bool :=
  list_eqb (fun x y => String.eqb (fst (fst x)) (fst (fst y)) && Qceqb (snd (fst x)) (snd (fst y)) &&
                       center_close 8 scale (snd x) (fst (snd y)) (snd (snd y))) a b.
Definition hobs_eqb (scale : Qc) (a b : hobs) : bool :=
  match a, b with
  | ONew x, ONew y => opt_eqb cells_eqb x y
  | OFlags x, OFlags y => list_eqb (list_eqb Bool.eqb) x y
  | OBool x, OBool y => Bool.eqb x y
  | ONat x, ONat y => Nat.eqb x y
  | OAreas x, OAreas y => areas_eqb scale x y
  | _, _ => false
  end.
