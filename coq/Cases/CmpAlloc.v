(* Comparators for allocation cells (correspondence files of C02/C12/C03). *)
From FrameModel Require Import Num.QcTac Geometry.Rect Cases.Cmp Alloc.Alloc.
Open Scope Qc_scope.

Definition alloc_eqb (a b : alloc) : bool :=
  list_eqb (fun p q => String.eqb (fst p) (fst q) && Qceqb (snd p) (snd q)) a b.
Definition cell_eqb (a b : cell) : bool :=
  rect_eqb (crect a) (crect b) && alloc_eqb (calloc a) (calloc b) && Nat.eqb (cdepth a) (cdepth b).
Definition cells_eqb := list_eqb cell_eqb.
Definition center_close (k : Z) (scale : Qc) (p : Qc * Qc) (x y : Qc) : bool :=
  qclose k scale (fst p) x && qclose k scale (snd p) y.
