(* Boolean comparators used by the generated correspondence files. *)
From FrameModel Require Import Num.QcTac Geometry.Rect.
Open Scope Qc_scope.

Definition eps53 : Qc := qc 1 9007199254740992.   (* 2^-53 *)
(* |q - f| <= k * 2^-53 * scale : f is q up to k roundings at magnitude [scale] *)
Definition qclose (k : Z) (scale q f : Qc) : bool :=
  Qcleb (Qcabs (q - f)) (qc k 1 * eps53 * Qcabs scale).
Definition qclose_rel (k : Z) (q f : Qc) : bool := qclose k q q f.

Definition rect_eqb (a b : Rect) : bool :=
  Qceqb (cx a) (cx b) && Qceqb (cy a) (cy b) && Qceqb (rw a) (rw b) && Qceqb (rh a) (rh b) &&
  Bool.eqb (fixed a) (fixed b) && Bool.eqb (hard a) (hard b) &&
  String.eqb (region a) (region b) && loc_eqb (rloc a) (rloc b).
Definition rect_close (k : Z) (scale : Qc) (a b : Rect) : bool :=
  qclose k scale (cx a) (cx b) && qclose k scale (cy a) (cy b) &&
  qclose k scale (rw a) (rw b) && qclose k scale (rh a) (rh b) &&
  Bool.eqb (fixed a) (fixed b) && Bool.eqb (hard a) (hard b) &&
  String.eqb (region a) (region b) && loc_eqb (rloc a) (rloc b).

Definition opt_eqb {A} (f : A -> A -> bool) (a b : option A) : bool :=
  match a, b with
  | None, None => true
  | Some x, Some y => f x y
  | _, _ => false
  end.
Definition pair_eqb {A B} (f : A -> A -> bool) (g : B -> B -> bool) (a b : A * B) : bool :=
  f (fst a) (fst b) && g (snd a) (snd b).
Fixpoint list_eqb {A} (f : A -> A -> bool) (a b : list A) : bool :=
  match a, b with
  | [], [] => true
  | x :: a', y :: b' => f x y && list_eqb f a' b'
  | _, _ => false
  end.
Definition nat_eqb := Nat.eqb.
