(* Soundness of the order-insensitive CNF comparison of Cases/CmpC07Set.v: two CNFs that
   [cnf_seteqb] accepts are satisfied by exactly the same valuations (so every statement of C07
   about the model's clause list - [ext], [sat] - transfers to the compared one). *)
From Coq Require Import ZArith List Bool String Arith Lia.
From FrameModel Require Import PB.Cnf PB.Robdd Cases.CmpC07Set.
Import ListNotations.
Local Open Scope nat_scope.

Lemma var_eqb_eq x y : var_eqb x y = true -> x = y.
Proof.
  destruct x, y; cbn; try discriminate; intro H.
  - apply String.eqb_eq in H. subst. reflexivity.
  - apply Nat.eqb_eq in H. subst. reflexivity.
  - apply Nat.eqb_eq in H. subst. reflexivity.
Qed.
Lemma lit_eqb_eq a b : lit_eqb a b = true -> a = b.
Proof.
  destruct a as [x s], b as [y t]. unfold lit_eqb; cbn. intro H. apply andb_prop in H. destruct H as [H1 H2].
  apply var_eqb_eq in H1. apply Bool.eqb_prop in H2. subst. reflexivity.
Qed.
Lemma list_eqb_eq {A} (eqb : A -> A -> bool) : (forall x y, eqb x y = true -> x = y) ->
  forall a b, list_eqb eqb a b = true -> a = b.
Proof.
  intros E a. induction a as [|x a IH]; intros [|y b]; cbn; try discriminate; [reflexivity|].
  intro H. apply andb_prop in H. destruct H as [H1 H2]. apply E in H1. apply IH in H2. subst. reflexivity.
Qed.

(* ---- the sort keeps the elements ---- *)
Section SortIn.
  Context {A : Type} (leb : A -> A -> bool).
  Lemma merge_In x : forall l1 l2, In x (merge leb l1 l2) <-> In x l1 \/ In x l2.
  Proof.
    induction l1 as [|a1 l1 IH1]; intro l2.
    - destruct l2; cbn; tauto.
    - induction l2 as [|a2 l2 IH2].
      + cbn. tauto.
      + cbn [merge]. destruct (leb a1 a2).
        * cbn [In]. rewrite IH1. cbn [In]. tauto.
        * cbn [In]. cbn [merge] in IH2. rewrite IH2. cbn [In]. tauto.
  Qed.
  Fixpoint stack_In (x : A) (st : list (option (list A))) : Prop :=
    match st with
    | [] => False
    | None :: r => stack_In x r
    | Some l :: r => In x l \/ stack_In x r
    end.
  Lemma to_stack_In x : forall st l, stack_In x (merge_list_to_stack leb st l) <-> In x l \/ stack_In x st.
  Proof.
    induction st as [|[l'|] st IH]; intro l; cbn [merge_list_to_stack stack_In].
    - tauto.
    - rewrite IH, merge_In. tauto.
    - tauto.
  Qed.
  Lemma merge_stack_In x : forall st, In x (merge_stack leb st) <-> stack_In x st.
  Proof.
    induction st as [|[l|] st IH]; cbn [merge_stack stack_In]; [tauto| |exact IH].
    rewrite merge_In, IH. tauto.
  Qed.
  Lemma iter_merge_In x : forall l st, In x (iter_merge leb st l) <-> In x l \/ stack_In x st.
  Proof.
    induction l as [|a l IH]; intro st; cbn [iter_merge].
    - rewrite merge_stack_In. cbn. tauto.
    - rewrite IH, to_stack_In. cbn [In]. tauto.
  Qed.
  Lemma msort_In x l : In x (msort leb l) <-> In x l.
  Proof. unfold msort. rewrite iter_merge_In. cbn. tauto. Qed.
End SortIn.

Lemma dedupe_In {A} (eqb : A -> A -> bool) : (forall x y, eqb x y = true -> x = y) ->
  forall l x, In x (dedupe eqb l) <-> In x l.
Proof.
  intros E l. induction l as [|a l IH]; intro x; [cbn; tauto|].
  cbn [dedupe]. destruct l as [|b l]; [cbn; tauto|].
  destruct (eqb a b) eqn:H.
  - apply E in H. subst b. rewrite IH. cbn [In]. tauto.
  - cbn [In]. rewrite IH. cbn [In]. tauto.
Qed.

(* ---- satisfaction depends on the sets only ---- *)
Lemma canon_clause_In c x : In x (canon_clause c) <-> In x c.
Proof. unfold canon_clause. rewrite (dedupe_In lit_eqb lit_eqb_eq), msort_In. tauto. Qed.
Lemma clause_val_In e c : clause_val e c = true <-> exists l, In l c /\ lit_val e l = true.
Proof. unfold clause_val. apply existsb_exists. Qed.
Lemma canon_clause_val e c : clause_val e (canon_clause c) = clause_val e c.
Proof.
  apply eq_true_iff_eq. rewrite !clause_val_In. split; intros (l & Hl & Hv); exists l; (split; [|exact Hv]);
    apply canon_clause_In; exact Hl.
Qed.
Lemma sat_In e f : sat e f <-> forall c, In c f -> clause_val e c = true.
Proof. unfold sat, cnf_val. apply forallb_forall. Qed.
Lemma canon_cnf_sat e f : sat e (canon_cnf f) <-> sat e f.
Proof.
  rewrite !sat_In. unfold canon_cnf. split; intros H c Hc.
  - rewrite <- canon_clause_val. apply H.
    apply (proj2 (dedupe_In _ (list_eqb_eq lit_eqb lit_eqb_eq) _ _)). apply (proj2 (msort_In _ _ _)).
    apply in_map. exact Hc.
  - apply (proj1 (dedupe_In _ (list_eqb_eq lit_eqb lit_eqb_eq) _ _)) in Hc. apply (proj1 (msort_In _ _ _)) in Hc.
    apply in_map_iff in Hc. destruct Hc as (c0 & <- & Hc0). rewrite canon_clause_val. apply H. exact Hc0.
Qed.

Theorem cnf_seteqb_sound f g : cnf_seteqb f g = true -> forall e, sat e f <-> sat e g.
Proof.
  unfold cnf_seteqb. intros H e.
  apply (list_eqb_eq _ (list_eqb_eq lit_eqb lit_eqb_eq)) in H.
  rewrite <- (canon_cnf_sat e f), <- (canon_cnf_sat e g), H. tauto.
Qed.
Print Assumptions cnf_seteqb_sound.
