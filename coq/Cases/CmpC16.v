(* Comparator of the C16 correspondence on histories with shared bindings: the model's value of
   EVERY binding against what the implementation's objects hold at the end of the history. *)
From Coq Require Import ZArith List Bool String.
From FrameModel Require Import PB.Expr PB.Dag.
Import ListNotations.

Definition dag_check (bs : list bind) (obs : list (option pyval)) : bool :=
  match run bs with Some vs => ovalues_eqb vs obs | None => false end.
(* for replay files: what the model holds *)
Definition dag_show (bs : list bind) := run bs.
