(* Comparators of the entry-form part of the C19 correspondence (harness/props/c19.py):
   the written text as read_yaml sees it, and the route read_yaml took for each entry form. *)
From FrameModel Require Import Num.QcTac Geometry.Rect Cases.Cmp Alloc.Alloc Cases.CmpAlloc Yaml.Tree
  Yaml.NetlistRead Yaml.DieAlloc Yaml.Producers Cases.CmpC19 Yaml.ProducersText.
From Coq Require Import ZArith.

Definition text_abs_eqb (a b : text_abs) : bool :=
  Bool.eqb (t_colon_space a) (t_colon_space b) && Z.eqb (t_breaks a) (t_breaks b).

(* the model's abstraction of the text written for the tree against the real text *)
Definition text_ok (t : ytree) (real : text_abs) : bool := text_abs_eqb (text_of t) real.
Definition otext_ok (t : option ytree) (real : text_abs) : bool :=
  match t with Some t => text_ok t real | None => true end.

(* the harness hands the strings over by what read_yaml looks at: the text layer of the model is
   instantiated with text := text_abs, looks := the identity *)
Definition looks_id (a : text_abs) : text_abs := a.
Inductive form : Type :=
| FTree                       (* the tree ruamel loads from the text *)
| FText (real : text_abs)     (* the text write_yaml() returned *)
| FName (name : text_abs)     (* the name of the file write_yaml(name) wrote *)
| FStream (real : text_abs).  (* a stream opened on that file *)
Definition source_of (f : form) : source text_abs :=
  match f with
  | FTree => SrcTree (YList [])
  | FText a => SrcString a
  | FName a => SrcString a
  | FStream a => SrcStream a
  end.
Definition route_ok (f : form) (observed : route) : bool :=
  route_eqb (route_of text_abs looks_id (source_of f)) observed.
Definition route_found_ok (f : form) (observed : route) : bool :=
  route_eqb (route_of_found text_abs looks_id (source_of f)) observed.

(* large allocations: the writer's tree only (the reader's model is quadratic: no_overlap) *)
Definition alloc_write_ok (cells : list cell) (written : ytree) : bool :=
  ytree_sim 0 (write_alloc cells) written.
