(* Comparator of the C10 constraint systems: the system the model generates (Glb/System.v) against the
   system captured from the real optimize_allocation, both as expression trees.  Each (in)equation is brought
   to a canonical polynomial  lhs - rhs  (GE turned into LE, the sign of an equality normalised), so the
   comparison is insensitive to the association / order of the terms, to where a constant sits and to the
   order of the equations; coefficients are compared within k roundings at the magnitude [scale] (the code
   multiplies and divides Python floats before GEKKO sees them).  (In)equations without variables that hold
   (0 <= 0, 3/4 <= 1) are dropped on both sides; the others are compared as multisets,
   the variable declarations by variable (bounds exactly).  Nothing here is used by a theorem.
   The case files evaluate [gen_system_fast] (rows of model.a tabulated once) - equal to [gen_system] by
   SystemFacts.gen_system_fast_same (C10_fast_generator_same). *)
From FrameModel Require Import Num.QcTac Geometry.Rect Cases.Cmp Alloc.Alloc Glb.Extract Glb.System Glb.SystemFacts.
Open Scope list_scope.
Open Scope Qc_scope.

Definition cmp_then (a b : comparison) : comparison := match a with Eq => b | _ => a end.
Definition var_tag (v : var) : nat :=
  match v with VA _ _ => 0 | VX _ => 1 | VY _ => 2 | VD _ => 3 | VEX _ => 4 | VEY _ => 5 end.
Definition var_cmp (a b : var) : comparison :=
  match a, b with
  | VA k c, VA k' c' => cmp_then (String.compare k k') (Nat.compare c c')
  | VX k, VX k' | VY k, VY k' | VD k, VD k' => String.compare k k'
  | VEX j, VEX j' | VEY j, VEY j' => Nat.compare j j'
  | _, _ => Nat.compare (var_tag a) (var_tag b)
  end.
Definition var_eqb (a b : var) : bool := match var_cmp a b with Eq => true | _ => false end.

(* monomials: sorted lists of variables; polynomials: lists sorted by monomial, one entry per monomial *)
Definition mono := list var.
Fixpoint mono_cmp (a b : mono) : comparison :=
  match a, b with
  | [], [] => Eq
  | [], _ => Lt
  | _, [] => Gt
  | x :: a', y :: b' => cmp_then (var_cmp x y) (mono_cmp a' b')
  end.
Fixpoint mono_insert (v : var) (m : mono) : mono :=
  match m with
  | [] => [v]
  | x :: r => match var_cmp v x with Gt => x :: mono_insert v r | _ => v :: m end
  end.
Definition mono_mul (a b : mono) : mono := fold_right mono_insert b a.

Definition poly := list (mono * Qc).
Fixpoint p_insert (m : mono) (q : Qc) (p : poly) : poly :=
  match p with
  | [] => [(m, q)]
  | (m', q') :: r =>
      match mono_cmp m m' with
      | Lt => (m, q) :: p
      | Eq => (m', q' + q) :: r
      | Gt => (m', q') :: p_insert m q r
      end
  end.
Definition p_add (a b : poly) : poly := fold_right (fun mq acc => p_insert (fst mq) (snd mq) acc) b a.
Definition p_scale (k : Qc) (a : poly) : poly := map (fun mq => (fst mq, k * snd mq)) a.
Definition p_mul (a b : poly) : poly :=
  fold_right (fun mq acc =>
    fold_right (fun nr acc' => p_insert (mono_mul (fst mq) (fst nr)) (snd mq * snd nr) acc') acc b) [] a.
Fixpoint poly_of (e : expr) : poly :=
  match e with
  | EC q => [([], q)]
  | EV v => [([v], 1)]
  | EAdd a b => p_add (poly_of a) (poly_of b)
  | ESub a b => p_add (poly_of a) (p_scale (- (1)) (poly_of b))
  | EMul a b => p_mul (poly_of a) (poly_of b)
  | ESqr a => let p := poly_of a in p_mul p p
  end.
Definition p_clean (p : poly) : poly := filter (fun mq => negb (Qceqb (snd mq) 0)) p.

(* canonical (in)equation: true = equality p == 0, false = inequality p <= 0 *)
Definition canon (c : con) : bool * poly :=
  let p := p_clean (p_add (poly_of (clhs c)) (p_scale (- (1)) (poly_of (crhs c)))) in
  match crel c with
  | LE => (false, p)
  | GE => (false, p_scale (- (1)) p)
  | EQ => (true, p)
  end.

Definition coef_close (k : Z) (scale q f : Qc) : bool := qclose k scale q f.
Fixpoint poly_close (k : Z) (scale : Qc) (fuel : nat) (a b : poly) : bool :=
  match fuel with
  | O => false
  | S n =>
    match a, b with
    | [], [] => true
    | (m, q) :: a', [] => coef_close k scale q 0 && poly_close k scale n a' []
    | [], (m, f) :: b' => coef_close k scale 0 f && poly_close k scale n [] b'
    | (m, q) :: a', (m', f) :: b' =>
        match mono_cmp m m' with
        | Eq => coef_close k scale q f && poly_close k scale n a' b'
        | Lt => coef_close k scale q 0 && poly_close k scale n a' b
        | Gt => coef_close k scale 0 f && poly_close k scale n a b'
        end
    end
  end.
Definition canon_close (k : Z) (scale : Qc) (a b : bool * poly) : bool :=
  let n := S (List.length (snd a) + List.length (snd b)) in
  Bool.eqb (fst a) (fst b) &&
  (poly_close k scale n (snd a) (snd b) ||
   (fst a && poly_close k scale n (snd a) (p_scale (- (1)) (snd b)))).

(* multiset comparison: every model equation consumes one captured equation *)
Fixpoint take_match (k : Z) (scale : Qc) (x : bool * poly) (l : list (bool * poly)) : option (list (bool * poly)) :=
  match l with
  | [] => None
  | y :: r => if canon_close k scale x y then Some r
              else match take_match k scale x r with Some r' => Some (y :: r') | None => None end
  end.
Fixpoint cons_match (k : Z) (scale : Qc) (ms os : list (bool * poly)) : bool :=
  match ms with
  | [] => is_empty os
  | x :: r => match take_match k scale x os with Some os' => cons_match k scale r os' | None => false end
  end.

(* an (in)equation without variables that holds: it constrains nothing, on either side *)
Definition trivial (k : Z) (scale : Qc) (c : bool * poly) : bool :=
  let tol := qc k 1 * eps53 * Qcabs scale in
  match snd c with
  | [] => true
  | [([], q)] => if fst c then Qcleb (Qcabs q) tol else Qcleb q tol
  | _ => false
  end.
Definition nontrivial_cons (k : Z) (scale : Qc) (l : list (bool * poly)) : list (bool * poly) :=
  filter (fun c => negb (trivial k scale c)) l.

Definition optq_eqb (a b : option Qc) : bool :=
  match a, b with Some x, Some y => Qceqb x y | None, None => true | _, _ => false end.
Definition decl_eqb (a b : vdecl) : bool :=
  var_eqb (vvar a) (vvar b) && optq_eqb (vlb a) (vlb b) && optq_eqb (vub a) (vub b).
Fixpoint take_decl (x : vdecl) (l : list vdecl) : option (list vdecl) :=
  match l with
  | [] => None
  | y :: r => if decl_eqb x y then Some r
              else match take_decl x r with Some r' => Some (y :: r') | None => None end
  end.
Fixpoint decls_match (ms os : list vdecl) : bool :=
  match ms with
  | [] => is_empty os
  | x :: r => match take_decl x os with Some os' => decls_match r os' | None => false end
  end.

(* model: result of gen_system; vs, cs: the captured system *)
Definition system_cmp (k : Z) (scale : Qc) (model : option system) (vs : list vdecl) (cs : list con) : bool :=
  match model with
  | None => false
  | Some s => decls_match (svars s) vs &&
              cons_match k scale (nontrivial_cons k scale (map canon (scons s))) (nontrivial_cons k scale (map canon cs))
  end.
Definition raises_cmp (model : option system) : bool := match model with None => true | Some _ => false end.

(* area ** (3/2) as the code computed it, by area *)
Definition pow32_of (tab : list (Qc * Qc)) (a : Qc) : Qc :=
  match find (fun p => Qceqb (fst p) a) tab with Some p => snd p | None => 1 end.

(* diagnostics for the harness (which part disagrees) *)
Definition system_diag (k : Z) (scale : Qc) (model : option system) (vs : list vdecl) (cs : list con) : nat :=
  match model with
  | None => 1
  | Some s => if negb (decls_match (svars s) vs) then 2
              else if negb (cons_match k scale (nontrivial_cons k scale (map canon (scons s)))
                                       (nontrivial_cons k scale (map canon cs))) then 3 else 0
  end.
