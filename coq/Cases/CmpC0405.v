(* Comparators and the computable square root used by the generated
   correspondence files of C04 / C05 (harness/props/netlist_common.py). *)
From FrameModel Require Import Num.QcTac Geometry.Rect Cases.Cmp Yaml.Tree Yaml.NetlistRead
  Yaml.NetlistWrite Yaml.NetlistReadForms.
Open Scope Qc_scope.

(* sqrt for evaluation: floor(sqrt(n*d*4^64)) / (d*2^64); exact on squares of
   rationals, relative error below 2^-60 otherwise.  It instantiates the
   section variable sqrt_o of the model in the generated files only. *)
Definition sqrt_a (a : Qc) : Qc :=
  let n := Qnum (this a) in
  let d := Zpos (Qden (this a)) in
  if (n <=? 0)%Z then 0 else
  let k := (2 ^ 64)%Z in
  let s := Z.sqrt (n * d * k * k) in
  match (d * k)%Z with
  | Zpos p => Q2Qc (s # p)
  | _ => 0
  end.

Definition qnear (k : Z) (q f : Qc) : bool := qclose k q q f.

Scheme Equality for reason.
Definition reason_in (r : reason) (l : list reason) : bool := existsb (reason_beq r) l.

Definition scalar_eqb (a b : scalar) : bool :=
  match a, b with
  | SNum q i, SNum q' i' => Qceqb q q' && Bool.eqb i i'
  | SBool x, SBool y => Bool.eqb x y
  | _, _ => false
  end.
(* same value, the int/float/bool form of the Python object not compared *)
Definition scalar_veqb (a b : scalar) : bool := Qceqb (sval a) (sval b).

Definition mrect_eqb (a b : mrect) : bool :=
  scalar_eqb (mr_x a) (mr_x b) && scalar_eqb (mr_y a) (mr_y b) &&
  scalar_eqb (mr_w a) (mr_w b) && scalar_eqb (mr_h a) (mr_h b) &&
  String.eqb (mr_region a) (mr_region b) && Bool.eqb (mr_fixed a) (mr_fixed b) &&
  Bool.eqb (mr_hard a) (mr_hard b) && loc_eqb (mr_loc a) (mr_loc b).

Definition qpair_near (k : Z) (a b : Qc * Qc) : bool :=
  qnear k (fst a) (fst b) && qnear k (snd a) (snd b).

(* association lists compared as mappings (keys are distinct on both sides: a
   Python dict on one, nodup_keys / a writer that sets each key once on the other):
   same number of entries, every key of a bound in b to a matching value.  The
   property fixes the order of modules, of nets and of the rectangles of a module;
   it does not fix the order of the attributes inside a module's mapping, of the
   regions of an area, of the two sections of the document. *)
Definition assoc_sim {A B} (f : string -> A -> B -> bool) (a : list (string * A)) (b : list (string * B)) : bool :=
  Nat.eqb (List.length a) (List.length b) &&
  forallb (fun kv => match lookup (fst kv) b with
                     | Some v' => f (fst kv) (snd kv) v'
                     | None => false
                     end) a.

(* lists compared as multisets *)
Fixpoint remove_first {A B} (f : A -> B -> bool) (x : A) (l : list B) : option (list B) :=
  match l with
  | [] => None
  | y :: r => if f x y then Some r
              else match remove_first f x r with Some r' => Some (y :: r') | None => None end
  end.
Fixpoint multiset_eqb {A B} (f : A -> B -> bool) (a : list A) (b : list B) : bool :=
  match a with
  | [] => is_nil b
  | x :: r => match remove_first f x b with Some b' => multiset_eqb f r b' | None => false end
  end.

Definition module_near (a b : module) : bool :=
  String.eqb (m_name a) (m_name b) &&
  opt_eqb (qpair_near 4) (m_center a) (m_center b) &&
  opt_eqb (qpair_near 4) (m_ar a) (m_ar b) &&
  Bool.eqb (m_terminal a) (m_terminal b) && Bool.eqb (m_hard a) (m_hard b) &&
  Bool.eqb (m_fixed a) (m_fixed b) && Bool.eqb (m_flip a) (m_flip b) &&
  assoc_sim (fun _ x y => Qceqb x y) (m_area a) (m_area b) &&
  list_eqb mrect_eqb (m_rects a) (m_rects b).

Definition net_eqb (a b : net) : bool :=
  list_eqb String.eqb (n_members a) (n_members b) && Qceqb (n_weight a) (n_weight b).

(* document trees; floats within k roundings *)
Fixpoint ytree_near (a b : ytree) {struct a} : bool :=
  match a, b with
  | YNum q i, YNum q' i' => Bool.eqb i i' && qnear 4 q q'
  | YBool x, YBool y => Bool.eqb x y
  | YStr s, YStr s' => String.eqb s s'
  | YList l, YList l' =>
      (fix go (l : list ytree) (l' : list ytree) : bool :=
         match l, l' with
         | [], [] => true
         | x :: r, y :: r' => ytree_near x y && go r r'
         | _, _ => false
         end) l l'
  | YMap m, YMap m' =>
      (fix go (m : list (string * ytree)) (m' : list (string * ytree)) : bool :=
         match m, m' with
         | [], [] => true
         | (k, x) :: r, (k', y) :: r' => String.eqb k k' && ytree_near x y && go r r'
         | _, _ => false
         end) m m'
  | _, _ => false
  end.

(* the written document: the sections in any order; the modules in order, each
   with its attributes in any order (the regions of an area in any order, the
   rectangles in order); the nets in order *)
Definition attr_near (k : string) (v v' : ytree) : bool :=
  match v, v' with
  | YMap m, YMap m' => assoc_sim (fun _ x y => ytree_near x y) m m'     (* area: {region: number} *)
  | _, _ => ytree_near v v'
  end.
Fixpoint modules_near (a b : list (string * ytree)) : bool :=
  match a, b with
  | [], [] => true
  | (k, YMap i) :: r, (k', YMap i') :: r' => String.eqb k k' && assoc_sim attr_near i i' && modules_near r r'
  | _, _ => false
  end.
Definition written_near (a b : ytree) : bool :=
  match a, b with
  | YMap ra, YMap rb =>
      assoc_sim (fun k v v' =>
                   if String.eqb k KW_MODULES
                   then match v, v' with YMap m, YMap m' => modules_near m m' | _, _ => false end
                   else ytree_near v v') ra rb
  | _, _ => false
  end.

(* what the implementation did with a document *)
Inductive observed : Type :=
| ORejected (admissible : list reason)        (* [] = class of the assertion not identified *)
| OLoaded (ms : list module) (nets : list net) (rects : list mrect) (eps : option (Qc * Qc))
          (written : ytree)                    (* Netlist.write_yaml() as a tree *)
          (sqd : list (option (list Qc))).     (* per net, squared distances member - mean;
                                                  None = some member has no centre *)

Definition sqd_near (scale : Qc) (a b : option (list Qc)) : bool :=
  opt_eqb (list_eqb (fun x y => qclose 64 scale x y)) a b.

Fixpoint list_eqb2 {A B} (f : A -> B -> bool) (a : list A) (b : list B) : bool :=
  match a, b with
  | [], [] => true
  | x :: a', y :: b' => f x y && list_eqb2 f a' b'
  | _, _ => false
  end.

(* scale for the squared distances: 1 + the largest squared centre coordinate *)
Definition centre_scale (ms : list module) : Qc :=
  fold_left (fun a m => match m_center m with
                        | Some (x, y) => Qcmax a (x * x + y * y)
                        | None => a end) ms 1.

(* the round trip on the model itself: reading what the model writes gives the
   same modules, nets and epsilons, and the same document again *)
Definition module_eqb (a b : module) : bool :=
  String.eqb (m_name a) (m_name b) &&
  opt_eqb (pair_eqb Qceqb Qceqb) (m_center a) (m_center b) &&
  opt_eqb (pair_eqb Qceqb Qceqb) (m_ar a) (m_ar b) &&
  Bool.eqb (m_terminal a) (m_terminal b) && Bool.eqb (m_hard a) (m_hard b) &&
  Bool.eqb (m_fixed a) (m_fixed b) && Bool.eqb (m_flip a) (m_flip b) &&
  list_eqb (pair_eqb String.eqb Qceqb) (m_area a) (m_area b) &&
  list_eqb mrect_eqb (m_rects a) (m_rects b).

Definition rt_model (epsdef : option (Qc * Qc)) (t : ytree) : bool :=
  match read_netlist sqrt_a epsdef t with
  | Reject _ => true
  | Ok n =>
      match read_netlist sqrt_a epsdef (write_netlist n) with
      | Ok n' => list_eqb module_eqb (nl_modules n') (nl_modules n) &&
                 list_eqb net_eqb (nl_nets n') (nl_nets n) &&
                 opt_eqb (pair_eqb Qceqb Qceqb) (nl_eps n') (nl_eps n)
      | Reject _ => false
      end
  end.

Definition check_case (epsdef : option (Qc * Qc)) (t : ytree) (o : observed) : bool :=
  rt_model epsdef t &&
  match read_netlist sqrt_a epsdef t, o with
  | Reject r, ORejected l => true      (* rejected by both; which assertion fired is no part of the property
                                          (reported as a statistic: reason_agrees) *)
  | Ok n, OLoaded ms nets rects eps written sqd =>
      list_eqb module_near (nl_modules n) ms &&
      list_eqb net_eqb (nl_nets n) nets &&
      multiset_eqb mrect_eqb (nl_rects n) rects &&     (* Netlist.rectangles: the collection *)
      opt_eqb (qpair_near 64) (nl_eps n) eps &&
      written_near (write_netlist n) written &&
      list_eqb2 (fun e d => sqd_near (centre_scale ms) (net_sqdists (nl_modules n) e) d)
               (nl_nets n) sqd
  | _, _ => false
  end.

(* statistic only: the assertion that fired is the one the model fires ([] = message not recognised) *)
Definition reason_agrees (epsdef : option (Qc * Qc)) (t : ytree) (o : observed) : bool :=
  match read_netlist sqrt_a epsdef t, o with
  | Reject r, ORejected l => is_nil l || reason_in r l
  | _, _ => true
  end.

(* which conjunct fails (for the replay files) *)
Definition explain_case (epsdef : option (Qc * Qc)) (t : ytree) (o : observed) : list bool :=
  match read_netlist sqrt_a epsdef t, o with
  | Ok n, OLoaded ms nets rects eps written sqd =>
      [list_eqb module_near (nl_modules n) ms;
       list_eqb net_eqb (nl_nets n) nets;
       multiset_eqb mrect_eqb (nl_rects n) rects;
       opt_eqb (qpair_near 64) (nl_eps n) eps;
       written_near (write_netlist n) written;
       list_eqb2 (fun e d => sqd_near (centre_scale ms) (net_sqdists (nl_modules n) e) d)
               (nl_nets n) sqd]
  | _, _ => []
  end.

(* Netlist(x) for an x that is neither a tree nor a str (None, a number): read_yaml's
   last branch.  The text layer is not consulted. *)
Definition check_other (epsdef : option (Qc * Qc)) (o : observed) : bool :=
  match read_source sqrt_a (fun _ => None) (fun _ => None) epsdef SrcOther, o with
  | Rejected r, ORejected l => true
  | _, _ => false
  end.
