(* Document comparison that leaves open what the property leaves open.

   The order of the entries of a mapping that holds ATTRIBUTES (the attributes of a module, the
   areas per region, the top-level keys of a document) is not part of what a document says: every
   reader looks attributes up by name.  The order of modules (the Modules mapping), of nets, of
   rectangles, of cells and of the ratios of a cell is kept.  In a die the reader sorts the regions
   by their tag into blockages and specialised regions and keeps the document order inside each
   class: two die documents say the same thing when the reader makes the same die of them. *)
From FrameModel Require Import Num.QcTac Geometry.Rect Cases.Cmp Cases.CmpC0405 Yaml.Tree Yaml.NetlistRead Yaml.DieAlloc.
Open Scope Qc_scope.

(* every mapping up to the order of its entries (numbers within k roundings, int/float form free) *)
Fixpoint ytree_free (k : Z) (a b : ytree) {struct a} : bool :=
  match a, b with
  | YNum q _, YNum q' _ => qnear k q q'
  | YBool x, YBool y => Bool.eqb x y
  | YStr s, YStr s' => String.eqb s s'
  | YList l, YList l' =>
      (fix go (l : list ytree) (l' : list ytree) : bool :=
         match l, l' with
         | [], [] => true
         | x :: r, y :: r' => ytree_free k x y && go r r'
         | _, _ => false
         end) l l'
  | YMap m, YMap m' =>
      Nat.eqb (List.length m) (List.length m') &&
      (fix go (m : list (string * ytree)) : bool :=
         match m with
         | [] => true
         | (key, x) :: r =>
             match lookup key m' with
             | Some y => ytree_free k x y
             | None => false
             end && go r
         end) m
  | _, _ => false
  end.

(* a mapping whose order counts (Modules: the order of the modules), its values free *)
Fixpoint ordered_map_free (k : Z) (m m' : list (string * ytree)) : bool :=
  match m, m' with
  | [], [] => true
  | (key, x) :: r, (key', y) :: r' => String.eqb key key' && ytree_free k x y && ordered_map_free k r r'
  | _, _ => false
  end.

(* a netlist document: top-level keys in any order, modules in order with their attributes in any
   order, nets in order *)
Definition netlist_doc_sim (k : Z) (a b : ytree) : bool :=
  match a, b with
  | YMap m, YMap m' =>
      nodup_keys m && nodup_keys m' && Nat.eqb (List.length m) (List.length m') &&
      forallb (fun kv =>
                 match lookup (fst kv) m' with
                 | Some y =>
                     if String.eqb (fst kv) KW_MODULES
                     then match snd kv, y with
                          | YMap ms, YMap ms' => ordered_map_free k ms ms'
                          | x, y => ytree_free k x y
                          end
                     else ytree_free k (snd kv) y
                 | None => false
                 end) m
  | _, _ => ytree_free k a b
  end.
Definition onetlist_doc_sim (k : Z) (a b : option ytree) : bool := opt_eqb (netlist_doc_sim k) a b.

(* a die document: by what the reader makes of it; two documents the reader refuses are compared
   entry by entry *)
Definition die_same (a b : die) : bool :=
  Qceqb (dw a) (dw b) && Qceqb (dh a) (dh b) && list_eqb rect_eqb (dblock a) (dblock b) &&
  list_eqb rect_eqb (dspec a) (dspec b).
Definition die_doc_sim (a b : ytree) : bool :=
  match read_die a, read_die b with
  | Some x, Some y => die_same x y
  | None, None => ytree_free 0 a b
  | _, _ => false
  end.
