(* Comparators and table-driven solver values for the C10 correspondence files. *)
From FrameModel Require Import Num.QcTac Geometry.Rect Cases.Cmp Alloc.Alloc Cases.CmpAlloc Glb.Extract.
Open Scope Qc_scope.

Fixpoint lookup_row (m : string) (A : list (string * list Qc)) : option (list Qc) :=
  match A with
  | [] => None
  | (k, v) :: r => if String.eqb k m then Some v else lookup_row m r
  end.
(* the synthetic / recorded model: a[m] is a row over the cells, x and y are dicts *)
Definition sol_of (A : list (string * list Qc)) (X Y : list (string * Qc)) : Sol :=
  mkSol (fun m c => match lookup_row m A with Some l => nth c l 0 | None => 0 end)
        (fun m => match lookup m X with Some v => v | None => 0 end)
        (fun m => match lookup m Y with Some v => v | None => 0 end).

Definition rects_cmp (exact : bool) (k : Z) (scale : Qc) (a b : list Rect) : bool :=
  if exact then list_eqb rect_eqb a b else list_eqb (rect_close k scale) a b.
Definition module_cmp (exact : bool) (k : Z) (scale : Qc) (a b : module) : bool :=
  String.eqb (mname a) (mname b) && Bool.eqb (mhard a) (mhard b) && Bool.eqb (mfixed a) (mfixed b) &&
  Bool.eqb (mflip a) (mflip b) &&
  Qceqb (fst (mcenter a)) (fst (mcenter b)) && Qceqb (snd (mcenter a)) (snd (mcenter b)) &&
  rects_cmp exact k scale (mrects a) (mrects b).
(* exacts: per module, whether its rectangles must agree exactly *)
Fixpoint modules_cmp (exacts : list bool) (k : Z) (scale : Qc) (a b : list module) : bool :=
  match a, b, exacts with
  | [], [], _ => true
  | x :: a', y :: b', e :: es => module_cmp e k scale x y && modules_cmp es k scale a' b'
  | x :: a', y :: b', [] => module_cmp true k scale x y && modules_cmp [] k scale a' b'
  | _, _, _ => false
  end.
Definition extract_cmp (exacts : list bool) (k : Z) (scale : Qc)
  (r : option (list module * list cell)) (obs : option (list module * list cell)) : bool :=
  match r, obs with
  | None, None => true
  | Some (ms, cs), Some (ms', cs') => modules_cmp exacts k scale ms ms' && cells_same cs cs'
  | _, _ => false
  end.

(* the recorded model.a table: Some v = Python float (constant), None = GEKKO variable *)
Definition entry_cmp (m : option Qc) (o : option Qc) : bool :=
  match m, o with
  | None, None => true
  | Some q, Some f => qclose 16 1 q f
  | _, _ => false
  end.
(* the neighbours of every cell are tabulated once ([nb_table]; SystemFacts.model_a_tab: the same as model_a) *)
Definition row_cmp (nbs : list (list nat)) (t : Qc) (cells : list cell) (m : module) (row : list (option Qc)) : bool :=
  Nat.eqb (List.length row) (List.length cells) &&
  forallb (fun p => entry_cmp (model_a_with (nth (fst p) nbs []) t cells m (fst p)) (snd p)) (indexed_from 0 row).
(* rows: (key, row) for every key of model.a that the rule decides, in the order of problem_modules *)
Fixpoint table_cmp_aux (nbs : list (list nat)) (t : Qc) (cells : list cell) (pms : list module)
  (rows : list (string * list (option Qc))) : bool :=
  match pms, rows with
  | [], [] => true
  | m :: pms', kr :: rows' =>
      String.eqb (mname m) (fst kr) && row_cmp nbs t cells m (snd kr) && table_cmp_aux nbs t cells pms' rows'
  | _, _ => false
  end.
Definition table_cmp (eps t : Qc) (cells : list cell) (mods : list module)
  (rows : list (string * list (option Qc))) : bool :=
  let nbs := nb_table eps cells in table_cmp_aux nbs t cells (problem_modules mods) rows.
