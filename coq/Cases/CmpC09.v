(* Comparators of the C09 correspondence: the implementation's dumped equations and
   netlist_to_utils tables against the model's. *)
From FrameModel Require Import Num.QcTac Cases.Cmp Legal.Syntax Legal.Build.
From Coq Require Import List String Bool.
Import ListNotations.
Open Scope Qc_scope.

(* constants of the groups computed from non-dyadic quantities (tau = 0.01*..., thin(r,1))
   are compared with the relative tolerance [toli]; all others with [tole] (0 on dyadic inputs) *)
Definition tol_of (tole toli : Qc) (g : group) : Qc :=
  match g with GInter | GShapes => toli | _ => tole end.

(* The property constrains the SYSTEM of equations, not the names the code gives them nor the order in
   which it emits them (names matter to the code only as look-up keys between its own passes): the
   implementation's dump is compared with the model's as a multiset, names ignored.  Greedy matching:
   every model equation removes the first dumped equation equal to it (up to the group's tolerance). *)
Definition eqn_close_nn (tol : Qc) (a b : eqn) : bool :=
  group_eqb (egroup a) (egroup b) &&
  expr_close tol (elhs a) (elhs b) && cmp_eqb (ecmp a) (ecmp b) &&
  expr_close tol (erhs a) (erhs b) && Bool.eqb (ehard a) (ehard b).

Fixpoint remove_first (p : eqn -> bool) (l : list eqn) : option (list eqn) :=
  match l with
  | [] => None
  | y :: l' => if p y then Some l'
               else match remove_first p l' with Some r => Some (y :: r) | None => None end
  end.

Fixpoint eqns_close (tole toli : Qc) (a b : list eqn) : bool :=
  match a with
  | [] => match b with [] => true | _ => false end
  | x :: a' => match remove_first (eqn_close_nn (tol_of tole toli (egroup x)) x) b with
               | Some b' => eqns_close tole toli a' b'
               | None => false
               end
  end.

Definition box_eqb (a b : box) : bool :=
  Qceqb (bx a) (bx b) && Qceqb (by_ a) (by_ b) && Qceqb (bw a) (bw b) && Qceqb (bh a) (bh b).
Definition umod_eqb (a b : umod) : bool :=
  box_eqb (u_trunk a) (u_trunk b) && list_eqb box_eqb (u_N a) (u_N b) && list_eqb box_eqb (u_S a) (u_S b)
  && list_eqb box_eqb (u_E a) (u_E b) && list_eqb box_eqb (u_W a) (u_W b).
Definition optrow_eqb (a b : optrow) : bool := list_eqb (opt_eqb Qceqb) a b.

(* the implementation's dict rows are rendered by the harness as lists indexed 0..c-1
   ([] when the module has no row at all); a row of Nones and a missing row are the same
   to optional_get, so compare through lookups *)
Definition row_lookup (r : optrow) (i : nat) : option Qc :=
  match nth_error r i with Some o => o | None => None end.
(* [tol] = 0 on the dyadic stream (exact); on the decimal stream the offsets x - x_trunk are
   rounded by the implementation *)
Definition row_equiv (tol : Qc) (c : nat) (a b : optrow) : bool :=
  forallb (fun i => opt_eqb (cst_close tol) (row_lookup a i) (row_lookup b i)) (seq 0 c).
Fixpoint rows_equiv (tol : Qc) (cs : list nat) (a b : list optrow) : bool :=
  match cs, a, b with
  | [], [], [] => true
  | c :: cs', x :: a', y :: b' => row_equiv tol c x y && rows_equiv tol cs' a' b'
  | _, _, _ => false
  end.

Definition utils_eqb (tol : Qc) (a b : utils) : bool :=
  let cs := map nrects (u_ml a) in
  list_eqb umod_eqb (u_ml a) (u_ml b) && list_eqb Qceqb (u_al a) (u_al b) &&
  rows_equiv tol cs (u_xl a) (u_xl b) && rows_equiv tol cs (u_yl a) (u_yl b) &&
  rows_equiv tol cs (u_wl a) (u_wl b) && rows_equiv tol cs (u_hl a) (u_hl b).

(* the whole check of one case *)
Definition c09_agree (nl : list module) (dw dh r tole toli : Qc) (iu : utils) (ieqs : list eqn) : bool :=
  match netlist_to_utils nl with
  | Some u => utils_eqb tole u iu && eqns_close tole toli (build_eqs u dw dh r) ieqs
  | None => false
  end.
