(* Comparators used by the generated C11 correspondence files (harness/props/c11.py). *)
From FrameModel Require Import Num.QcTac Geometry.Rect Cases.Cmp Refine.Phase1 Refine.Phase2 Refine.DieRefine.
Open Scope Qc_scope.

Definition is_reject {A} (x : result A) : bool := match x with Reject => true | _ => false end.

(* phase 2 stopped as early as it could (see Phase2.phase2_tight) *)
Definition die_split_tight (d : DieSt) (r : Qc) (n : Z) (d' : DieSt) : bool :=
  match phase1 (phase1_fuel (refinable d)) (refinable d) r n with
  | Ok p1 => if (Z.to_nat n <=? List.length p1)%nat then true
             else phase2_tight p1 (refinable d') r (Z.to_nat n)
  | _ => false
  end.
Definition split_tight (rs : list Rect) (r : Qc) (n : Z) (out : list Rect) : bool :=
  match phase1 (phase1_fuel rs) rs r n with
  | Ok p1 => if (Z.to_nat n <=? List.length p1)%nat then true
             else phase2_tight p1 out r (Z.to_nat n)
  | _ => false
  end.
Definition phase2_ran (rs : list Rect) (r : Qc) (n : Z) : bool :=
  match phase1 (phase1_fuel rs) rs r n with
  | Ok p1 => negb (Z.to_nat n <=? List.length p1)%nat
  | _ => false
  end.

(* same multiset of rectangles *)
Fixpoint perm_rects (a b : list Rect) : bool :=
  match a with
  | [] => match b with [] => true | _ => false end
  | x :: a' => match remove1 x b with Some b' => perm_rects a' b' | None => false end
  end.
Definition equals_greedy (rs : list Rect) (r : Qc) (n : Z) (out : list Rect) : bool :=
  match split_rectangles_greedy rs r n with Ok o => perm_rects o out | _ => false end.

(* floorplanning_rectangles() as observed *)
Definition fp_eqb (d : DieSt) (refin fixd : list Rect) : bool :=
  rects_eqb (fst (floorplanning_rectangles d)) refin && rects_eqb (snd (floorplanning_rectangles d)) fixd.

(* initial_grid: exact, or up to k roundings at the magnitude of the die *)
Definition die_eqb (a b : DieSt) : bool :=
  same_rect (bbox a) (bbox b) && rects_eqb (spec a) (spec b) && rects_eqb (ground a) (ground b) &&
  rects_eqb (blockages a) (blockages b) && rects_eqb (fixedr a) (fixedr b).
Definition die_close (k : Z) (scale : Qc) (a b : DieSt) : bool :=
  same_rect (bbox a) (bbox b) && rects_eqb (spec a) (spec b) &&
  list_eqb (rect_close k scale) (ground a) (ground b) &&
  rects_eqb (blockages a) (blockages b) && rects_eqb (fixedr a) (fixedr b).
Definition grid_agrees (exact : bool) (scale : Qc) (d : DieSt) (nrows ncols : Z) (d' : DieSt) : bool :=
  match initial_grid d nrows ncols with
  | Ok m => if exact then die_eqb m d' else die_close 16 scale m d'
  | _ => false
  end.
