(* Comparators used by the generated C11 correspondence files (harness/props/c11.py). *)
From FrameModel Require Import Num.QcTac Geometry.Rect Cases.Cmp Refine.Phase1 Refine.Phase2 Refine.DieRefine.
Open Scope Qc_scope.

Definition is_reject {A} (x : result A) : bool := match x with Reject => true | _ => false end.

(* phase 2 stopped as early as it could (see Phase2.phase2_tight) *)
Definition die_split_tight (d : DieSt) (r : Qc) (n : Z) (d' : DieSt) : bool :=
  match phase1 (phase1_fuel (refinable d)) (refinable d) r n with
  | Ok p1 => if (Z.to_nat n <=? List.length p1)%nat then true
             else phase2_tight p1 (refinable d') r (Z.to_nat n)
  | _ => false
  end.
Definition split_tight (rs : list Rect) (r : Qc) (n : Z) (out : list Rect) : bool :=
  match phase1 (phase1_fuel rs) rs r n with
  | Ok p1 => if (Z.to_nat n <=? List.length p1)%nat then true
             else phase2_tight p1 out r (Z.to_nat n)
  | _ => false
  end.
Definition phase2_ran (rs : list Rect) (r : Qc) (n : Z) : bool :=
  match phase1 (phase1_fuel rs) rs r n with
  | Ok p1 => negb (Z.to_nat n <=? List.length p1)%nat
  | _ => false
  end.

Definition equals_greedy (rs : list Rect) (r : Qc) (n : Z) (out : list Rect) : bool :=
  match split_rectangles_greedy rs r n with Ok o => perm_rects o out | _ => false end.

(* floorplanning_rectangles() as observed *)
Definition fp_eqb (d : DieSt) (refin fixd : list Rect) : bool :=
  perm_rects (fst (floorplanning_rectangles d)) refin && perm_rects (snd (floorplanning_rectangles d)) fixd.

(* the same die; the refinable regions as multisets (the property promises no order of the lists) *)
Definition die_eqb (a b : DieSt) : bool :=
  same_rect (bbox a) (bbox b) && perm_rects (spec a) (spec b) && perm_rects (ground a) (ground b) &&
  rects_eqb (blockages a) (blockages b) && rects_eqb (fixedr a) (fixedr b).
(* initial_grid: exact, or up to k roundings at the magnitude of the die (cells matched in any order:
   distinct cells are a whole cell apart, far more than the tolerance) *)
Fixpoint remove_close (k : Z) (scale : Qc) (x : Rect) (l : list Rect) : option (list Rect) :=
  match l with
  | [] => None
  | y :: l' => if rect_close k scale x y then Some l' else option_map (cons y) (remove_close k scale x l')
  end.
Fixpoint perm_close (k : Z) (scale : Qc) (a b : list Rect) : bool :=
  match a with
  | [] => match b with [] => true | _ => false end
  | x :: a' => match remove_close k scale x b with Some b' => perm_close k scale a' b' | None => false end
  end.
Definition die_close (k : Z) (scale : Qc) (a b : DieSt) : bool :=
  same_rect (bbox a) (bbox b) && perm_rects (spec a) (spec b) &&
  perm_close k scale (ground a) (ground b) &&
  rects_eqb (blockages a) (blockages b) && rects_eqb (fixedr a) (fixedr b).
Definition grid_agrees (exact : bool) (scale : Qc) (d : DieSt) (nrows ncols : Z) (d' : DieSt) : bool :=
  match initial_grid d nrows ncols with
  | Ok m => if exact then die_eqb m d' else die_close 16 scale m d'
  | _ => false
  end.

(* ---- histories of one Die object (Refine/DieOps.v) ---- *)
From FrameModel Require Import Refine.DieOps Refine.DieOpsFacts.
From FrameModel Require Cases.CmpC01.

(* DieOpsFacts.die_inv, decided: the state the constructor left tiles the die *)
Definition die_inv_b (d : DieSt) : bool :=
  wfb (bbox d) && FrameModel.Cases.CmpC01.tiles_b (refinable d ++ blockages d ++ fixedr d) (bbox d).
Lemma die_inv_b_sound d : die_inv_b d = true -> die_inv d.
Proof.
  unfold die_inv_b, die_inv. intro H. apply andb_true_iff in H. destruct H as [H1 H2]. split.
  - apply FrameModel.Cases.CmpC01.wfb_wf. exact H1.
  - apply FrameModel.Cases.CmpC01.tiles_b_sound. exact H2.
Qed.

(* an observed history from a state that tiles the die *)
Definition history_ok (d0 : DieSt) (tr : list event) : bool := die_inv_b d0 && trace_ok d0 tr.

(* a grid step whose cell size is not a binary fraction: the cells within 16 roundings *)
Definition step_agrees (exact : bool) (scale : Qc) (d : DieSt) (op : die_op) (out : outcome) (d' : DieSt) : bool :=
  match op, out with
  | OGrid nr nc, Returned => grid_agrees exact scale d nr nc d'
  | _, _ => step_ok d op out d'
  end.

(* phase 2 of every split step stopped as early as it could *)
Fixpoint trace_tight (d : DieSt) (tr : list event) : bool :=
  match tr with
  | [] => true
  | (OSplit r n, Returned, d') :: rest => die_split_tight d r n d' && trace_tight d' rest
  | (_, _, d') :: rest => trace_tight d' rest
  end.
