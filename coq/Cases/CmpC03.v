(* Comparators for the correspondence files of C03 (initial allocation). *)
From FrameModel Require Import Num.QcTac Geometry.Rect Cases.Cmp Alloc.Alloc Alloc.Initial.
Open Scope Qc_scope.

Definition reject_eqb (a b : reject) : bool :=
  match a, b with
  | RCells, RCells | RSquare, RSquare | RFixedRatio, RFixedRatio | RFixedCount, RFixedCount
  | RAlloc, RAlloc | RZeroArea, RZeroArea => true
  | _, _ => false
  end.

(* a ratio is a sum of k quotients: equal, or within k+2 roundings at magnitude 1
   (k = 0: every quotient is exact in binary64, equality is required) *)
Definition entry_close (k : Z) (p q : string * Qc) : bool :=
  String.eqb (fst p) (fst q) && qclose k 1 (snd p) (snd q).
(* The property fixes WHICH cells come out and what each holds, not the position of a cell in the list nor the order
   of the entries inside a cell (dictionary keys): cells are matched as a multiset (every observed cell removes the
   first model cell equal to it), entries by module name. *)
Definition alloc_close (k : Z) (a b : list (string * Qc)) : bool :=
  Nat.eqb (List.length a) (List.length b) && forallb (fun p => existsb (entry_close k p) b) a.
Definition cell_close (k : Z) (a b : cell) : bool :=
  rect_eqb (crect a) (crect b) && alloc_close k (calloc a) (calloc b) &&
  Nat.eqb (cdepth a) (cdepth b).
Fixpoint remove_first_cell (p : cell -> bool) (l : list cell) : option (list cell) :=
  match l with
  | [] => None
  | y :: l' => if p y then Some l'
               else match remove_first_cell p l' with Some r => Some (y :: r) | None => None end
  end.
Fixpoint cells_close (ks : list Z) (a b : list cell) : bool :=
  match ks, b with
  | [], [] => match a with [] => true | _ => false end
  | k :: ks', y :: b' =>
      match remove_first_cell (fun x => cell_close k x y) a with
      | Some a' => cells_close ks' a' b'
      | None => false
      end
  | _, _ => false
  end.

Definition agree_accept (ks : list Z) (r : result) (obs : list cell) : bool :=
  match r with Accept cs => cells_close ks cs obs | Reject _ => false end.
(* a refusal is compared as a refusal: which assertion fired (and its wording) is not part of the property; the
   class the harness recognised is kept as an argument for the statistics only *)
Definition agree_reject (r : result) (why : reject) : bool :=
  match r with Reject _ => true | Accept _ => false end.
