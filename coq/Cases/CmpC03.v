(* Comparators for the correspondence files of C03 (initial allocation). *)
From FrameModel Require Import Num.QcTac Geometry.Rect Cases.Cmp Alloc.Alloc Alloc.Initial.
Open Scope Qc_scope.

Definition reject_eqb (a b : reject) : bool :=
  match a, b with
  | RCells, RCells | RSquare, RSquare | RFixedRatio, RFixedRatio | RFixedCount, RFixedCount
  | RAlloc, RAlloc | RZeroArea, RZeroArea => true
  | _, _ => false
  end.

(* a ratio is a sum of k quotients: equal, or within k+2 roundings at magnitude 1
   (k = 0: every quotient is exact in binary64, equality is required) *)
Definition entry_close (k : Z) (p q : string * Qc) : bool :=
  String.eqb (fst p) (fst q) && qclose k 1 (snd p) (snd q).
Definition cell_close (k : Z) (a b : cell) : bool :=
  rect_eqb (crect a) (crect b) && list_eqb (entry_close k) (calloc a) (calloc b) &&
  Nat.eqb (cdepth a) (cdepth b).
Fixpoint cells_close (ks : list Z) (a b : list cell) : bool :=
  match ks, a, b with
  | [], [], [] => true
  | k :: ks', x :: a', y :: b' => cell_close k x y && cells_close ks' a' b'
  | _, _, _ => false
  end.

Definition agree_accept (ks : list Z) (r : result) (obs : list cell) : bool :=
  match r with Accept cs => cells_close ks cs obs | Reject _ => false end.
Definition agree_reject (r : result) (why : reject) : bool :=
  match r with Reject w => reject_eqb w why | Accept _ => false end.
