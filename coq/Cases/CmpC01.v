(* Comparators of the C01 correspondence: the implementation's observable output
   (verdict, the four region lists) against the die model.  The implementation's ground
   list is mapped back to index-rectangles of the model's grid and must pass the verified
   checker is_cover; equality with the model's own greedy cover is NOT required. *)
From FrameModel Require Import Num.QcTac Geometry.Rect Cases.Cmp
  Die.Boundaries Die.Cells Die.Cover Die.DieModel Die.DieInput Die.DieInputFacts Die.NetHistory Die.NetHistoryFacts.
From Coq Require Import Ascii String.
Open Scope Qc_scope.

Fixpoint index_of (v : Qc) (l : list Qc) : option nat :=
  match l with
  | [] => None
  | x :: r => if Qceqb v x then Some O else option_map S (index_of v r)
  end.

(* the index-rectangle whose span is exactly the given rectangle *)
Definition irect_of (xs ys : list Qc) (g : Rect) : option irect :=
  match index_of (ymin g) ys, index_of (ymax g) ys, index_of (xmin g) xs, index_of (xmax g) xs with
  | Some r0, Some (S r1), Some c0, Some (S c1) => Some (mkIR r0 r1 c0 c1)
  | _, _, _, _ => None
  end.
Fixpoint all_some {A} (l : list (option A)) : option (list A) :=
  match l with
  | [] => Some []
  | Some x :: r => option_map (cons x) (all_some r)
  | None :: _ => None
  end.

(* boolean version of Rect.tiles *)
Fixpoint pairwise_zero (l : list Rect) : bool :=
  match l with
  | [] => true
  | r :: rest => forallb (fun s => Qceqb (area_overlap r s) 0) rest && pairwise_zero rest
  end.
Definition tiles_b (l : list Rect) (d : Rect) : bool :=
  forallb (fun r => wfb r && is_inside r d) l && pairwise_zero l &&
  Qceqb (Qcsum (map area l)) (area d).

Lemma wfb_wf r : wfb r = true -> wf r.
Proof. unfold wfb, wf. intro H. qb2p. auto. Qed.
Lemma pairwise_zero_sound l : pairwise_zero l = true -> pairwise_no_ov l.
Proof.
  induction l as [|r rest IH]; cbn; [auto|]. intro H. apply andb_true_iff in H. destruct H as [H1 H2].
  split; [|apply IH; exact H2]. apply Forall_forall. intros s Hs.
  rewrite forallb_forall in H1. specialize (H1 s Hs). qb2p. exact H1.
Qed.
Theorem tiles_b_sound l d : tiles_b l d = true -> tiles l d.
Proof.
  unfold tiles_b, tiles. intro H. apply andb_true_iff in H. destruct H as [H H3].
  apply andb_true_iff in H. destruct H as [H1 H2]. split; [|split].
  - apply Forall_forall. intros r Hr. rewrite forallb_forall in H1. specialize (H1 r Hr).
    apply andb_true_iff in H1. destruct H1. split; [apply wfb_wf|]; assumption.
  - apply pairwise_zero_sound. exact H2.
  - qb2p. exact H3.
Qed.

(* the hypotheses of die_tiles, decided *)
Definition sep_b (eps : Qc) (l : list Qc) : bool :=
  forallb (fun a => forallb (fun b => Qceqb a b || Qcltb (a + eps) b || Qcltb (b + eps) a) l) l.
Definition strict_b (eps w h : Qc) (ins : list Rect) : bool :=
  forallb (fun r => wfb r && is_inside r (die_rect w h)) ins && pairwise_zero ins &&
  sep_b eps (all_coords_x w h ins) && sep_b eps (all_coords_y w h ins).

Definition reason_eqb (a b : reason) : bool :=
  match a, b with
  | RParse, RParse | ROutside, ROutside | ROverlap, ROverlap | RArea, RArea | RCover, RCover => true
  | _, _ => false
  end.

(* the same rectangles in any order: the property promises that every input region is reported
   unchanged with its tag, not the order of the lists *)
Fixpoint remove_rect (x : Rect) (l : list Rect) : option (list Rect) :=
  match l with
  | [] => None
  | y :: l' => if rect_eqb x y then Some l' else option_map (cons y) (remove_rect x l')
  end.
Fixpoint bag_eqb (a b : list Rect) : bool :=
  match a with
  | [] => match b with [] => true | _ => false end
  | x :: a' => match remove_rect x b with Some b' => bag_eqb a' b' | None => false end
  end.

(* the implementation accepted and reported these four lists *)
Definition agree_accept (eps aeps deps tin : Qc) (d : desc) (G S B Fx : list Rect) : bool :=
  match parse d with
  | None => false
  | Some (w, h, regions) =>
      let ins := inputs regions (d_fixed d) in
      let xs := die_xs eps w h ins in
      let ys := die_ys eps w h ins in
      match all_some (map (irect_of xs ys) G) with
      | None => false
      | Some gs =>
          match die_with_cover eps aeps deps tin d gs with
          | Accept g s b f =>
              list_eqb rect_eqb g G && bag_eqb s S && bag_eqb b B && bag_eqb f Fx &&
              (if strict_b eps w h ins then tiles_b (s ++ g ++ b ++ f) (die_rect w h) else true)
          | Reject _ => false
          end
      end
  end.

(* the implementation rejected; cls = the assertion class when the harness recognised it *)
Definition agree_reject (eps aeps deps tin : Qc) (d : desc) (cls : option reason) : bool :=
  match die_model_cells eps aeps deps tin d with
  | Reject why => match cls with None => true | Some c => reason_eqb why c end
  | Accept _ _ _ _ => false
  end.

(* diagnosis helpers (printed into replay files, never part of the verdict) *)
Definition model_grid (eps : Qc) (d : desc) : list Qc * list Qc * list (list bool) :=
  match parse d with
  | None => ([], [], [])
  | Some (w, h, regions) =>
      let ins := inputs regions (d_fixed d) in
      let xs := die_xs eps w h ins in
      let ys := die_ys eps w h ins in
      (xs, ys, cell_matrix xs ys ins)
  end.

(* ---- input forms (Die/DieInput.v): the description arrives as a dict, a str ('<W>x<H>',
   YAML text, file name) or an open stream; [files] / [loads] are the file the harness wrote and
   the tree the generated text stands for ---- *)
Definition nl : string := String (ascii_of_nat 10) EmptyString.
Definition tab : string := String (ascii_of_nat 9) EmptyString.

Definition agree_accept_in (files : list (string * string)) (loads : list (string * yload))
    (eps aeps deps tin : Qc) (i : die_input) (fx G S B Fx : list Rect) : bool :=
  match desc_of (files_of files) (loader_of loads) i fx with
  | Some d => agree_accept eps aeps deps tin d G S B Fx
  | None => false
  end.

Definition agree_reject_in (files : list (string * string)) (loads : list (string * yload))
    (eps aeps deps tin : Qc) (i : die_input) (fx : list Rect) (cls : option reason) : bool :=
  match die_in_cells (files_of files) (loader_of loads) eps aeps deps tin i fx with
  | IRes (Reject why) => match cls with None => true | Some c => reason_eqb why c end
  | INonFinite | IRaise => true     (* refused either way: the property does not say how *)
  | _ => false
  end.

(* an exception other than an assertion escaped (OSError, the loader's errors) *)
Definition agree_raise_in (files : list (string * string)) (loads : list (string * yload))
    (eps aeps deps tin : Qc) (i : die_input) (fx : list Rect) : bool :=
  match die_in_cells (files_of files) (loader_of loads) eps aeps deps tin i fx with
  | IRaise | INonFinite | IRes (Reject _) => true     (* refused either way *)
  | _ => false
  end.

(* yaml_parse_die.string_die called directly: cls 0 = None, 1 = assertion, 2 = infinite shape,
   3 = Shape(w, h) (the observed floats within one rounding of the exact decimal value) *)
Definition sd_agrees (s : string) (cls : nat) (w h : Qc) : bool :=
  match string_die s, cls with
  | SDNone, 0%nat => true
  | SDNotPositive, 1%nat => true
  | SDInfinite, 2%nat => true
  | SDShape mw mh, 3%nat => qclose_rel 1 mw w && qclose_rel 1 mh h
  | _, _ => false
  end.

(* accepted by the comparator = accepted by the model of the input form, with the very cover
   the implementation reported *)
Lemma agree_accept_in_resolved files loads eps aeps deps tin i fx G S B Fx :
  agree_accept_in files loads eps aeps deps tin i fx G S B Fx = true ->
  exists t, resolve (files_of files) (loader_of loads) i = RTree t /\
            agree_accept eps aeps deps tin (mkDesc t fx) G S B Fx = true.
Proof.
  unfold agree_accept_in, desc_of. destruct (resolve _ _ i) as [t| | |]; try discriminate.
  intro H. exists t. split; [reflexivity | exact H].
Qed.

(* ---- the same objects handed to several constructions (DieInput.session): [seen] is what the model says
   each construction receives, [chks] the comparison of each observed outcome on what it received ---- *)
Fixpoint agree_steps (seen : list (die_input * list Rect)) (chks : list (die_input -> list Rect -> bool)) : bool :=
  match seen, chks with
  | [], [] => true
  | (i, fx) :: s, c :: cs => c i fx && agree_steps s cs
  | _, _ => false
  end.

Lemma agree_steps_sound o steps chks :
  agree_steps (session (fun i fx => (i, fx)) o steps) chks = true ->
  Forall2 (fun (b : bool) (chk : die_input -> list Rect -> bool) => chk (o_desc o) (call_fixed o b) = true) steps chks.
Proof.
  rewrite session_fresh. revert chks. induction steps as [|b rest IH]; intros chks H; destruct chks as [|c cs]; cbn in H; try discriminate.
  - constructor.
  - apply andb_true_iff in H. destruct H as [H1 H2]. constructor; [exact H1 | apply IH; exact H2].
Qed.

(* ---- the attached Netlist object has a HISTORY (Die/NetHistory.v): [seen] is what the model says each construction
   of the history is handed - the description and the fixed rectangles the modules have at that moment; None: the
   model says an operation of the history is refused ---- *)
Definition agree_nsteps (seen : option (list (die_input * list Rect))) (chks : list (die_input -> list Rect -> bool)) : bool :=
  match seen with Some s => agree_steps s chks | None => false end.

Lemma agree_steps_forall2 seen chks :
  agree_steps seen chks = true ->
  Forall2 (fun (p : die_input * list Rect) (chk : die_input -> list Rect -> bool) => chk (fst p) (snd p) = true) seen chks.
Proof.
  revert chks. induction seen as [|[i fx] s IH]; intros chks H; destruct chks as [|c cs]; cbn in H; try discriminate.
  - constructor.
  - apply andb_true_iff in H. destruct H as [H1 H2]. constructor; [exact H1 | apply IH; exact H2].
Qed.

Lemma agree_nsteps_sound d st ops chks :
  agree_nsteps (nsession (fun i fx => (i, fx)) d st ops) chks = true ->
  exists seen, nsession (fun i fx => (i, fx)) d st ops = Some seen /\
    Forall2 (fun (p : die_input * list Rect) (chk : die_input -> list Rect -> bool) => chk (fst p) (snd p) = true) seen chks.
Proof.
  unfold agree_nsteps. destruct (nsession _ d st ops) as [seen|]; [|discriminate].
  intro H. exists seen. split; [reflexivity | apply agree_steps_forall2; exact H].
Qed.

(* an operation of the history raised in the implementation: the model refuses the history too *)
Definition ops_refused (st : netlist_state) (ops : list net_op) : bool :=
  match run_ops ops st with None => true | Some _ => false end.
