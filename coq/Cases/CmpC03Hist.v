(* Checker used by the correspondence of C03 on object histories (Alloc/InitialHist.v).

   The harness drives a real Netlist / Die pair through a sequence of operations and reads
   back, after every operation, every module (name, flags, area, centre, rectangles, and
   whether rectangle 0's centre object is the module's centre object) and whether the call
   raised; for an allocation also the result.  The checker threads the state: after every
   operation the model's new state must equal the observed one (values exactly; see [hmod_eqb]
   for the two things the property leaves open) and the replay continues from the observed
   state; the result of every allocation
   must agree with [initial_allocation] of the state it was computed from (same comparators
   as the single-call correspondence, Cases/CmpC03.v). *)
From FrameModel Require Import Num.QcTac Geometry.Rect Cases.Cmp Alloc.Alloc Alloc.Initial
  Alloc.InitialFacts Alloc.InitialHist Cases.CmpC03 Stog.CreateStog Stog.StogFacts Stog.StogPost.
Open Scope list_scope.
Open Scope Qc_scope.

(* [strict]: rectangles in the same order with the same roles; otherwise (after Module.create_stog,
   whose choice among several valid trunks property C03 does not constrain) the same rectangles up
   to order and roles.  Whether rectangle 0 shares its centre object with the module is NOT
   compared: it is read back from the implementation after every operation and the model continues
   from the observed value (the property does not fix the aliasing; the model only says what an
   in-place write means when the objects are shared). *)
Definition hmod_eqb (strict : bool) (a b : hmod) : bool :=
  String.eqb (mname (hbase a)) (mname (hbase b)) &&
  Bool.eqb (mfixed (hbase a)) (mfixed (hbase b)) && Bool.eqb (mhard (hbase a)) (mhard (hbase b)) &&
  Qceqb (marea (hbase a)) (marea (hbase b)) &&
  opt_eqb (pair_eqb Qceqb Qceqb) (mcenter (hbase a)) (mcenter (hbase b)) &&
  (if strict then list_eqb rect_eqb (mrects (hbase a)) (mrects (hbase b))
   else perm_eqb (mrects (hbase a)) (mrects (hbase b))).
Definition is_restog (op : nop) : bool := match op with NCreateStog _ => true | _ => false end.

Inductive nobs :=
  | NOAccept (ks : list Z) (cells : list cell)
  | NOReject (why : reject)
  | NONone.

Definition nstep : Type := (nop * bool * nobs * list hmod)%type.

Fixpoint nhist_check (sqrt_o : Qc -> Qc) (feps ceps aeps seps saeps : Qc) (R Fx : list Rect)
         (ms : list hmod) (steps : list nstep) : bool :=
  match steps with
  | [] => true
  | (op, raised, o, post) :: rest =>
      let res := apply_nop sqrt_o feps ceps aeps seps saeps R Fx ms op in
      Bool.eqb (snd res) raised && list_eqb (hmod_eqb (negb (is_restog op))) (fst res) post &&
      match op, o with
      | NAlloc inc0, NOAccept ks cells =>
          agree_accept ks (alloc_result sqrt_o feps ceps aeps R Fx inc0 ms) cells
      | NAlloc inc0, NOReject why => agree_reject (alloc_result sqrt_o feps ceps aeps R Fx inc0 ms) why
      | NAlloc _, NONone => false
      | _, NONone => true
      | _, _ => false
      end &&
      nhist_check sqrt_o feps ceps aeps seps saeps R Fx post rest
  end.

(* non-vacuity (the state of Alloc/InitialFacts.v, Module Ex): allocate; the allocation has given
   S its square, whose centre is S's centre object; S's centre is then moved in place by -1/2 in x
   (the square follows), H is moved in place to x 2..3, y 0..1, and the die is allocated again:
   C now lists S with 4/8 and H with 1/4; the state read back after every step is the model's *)
Module ExH.
  Import Ex.
  Definition S0 := mkMod "S" false false (qc 4 1) (Some (qc 7 2, qc 2 1)) [].
  Definition Hm := mkMod "H" false true (qc 1 1) (Some (qc 3 1, qc 3 2)) [H1].
  Definition Fm := mkMod "F1" true true (qc 1 1) (Some (qc 1 2, qc 7 2)) [F1].
  Definition sqr x := mkRect x (qc 2 1) (qc 2 1) (qc 2 1) false false "_" NOPOLY.
  Definition S1 x := mkMod "S" false false (qc 4 1) (Some (x, qc 2 1)) [sqr x].
  Definition H2 := mkMod "H" false true (qc 1 1) (Some (qc 3 1, qc 3 2))
                     [mkRect (qc 5 2) (qc 1 2) (qc 1 1) (qc 1 1) false true "_" TRUNK].
  Definition fx := set_fixed F1.
  Example hist_ex :
    nhist_check sq feps ceps aeps (qc 1 1000000) (qc 1 1000) R [F1]
      [mkH S0 false; mkH Hm false; mkH Fm false]
      [ (NAlloc false, false,
         NOAccept [0; 0; 0; 0]%Z
           [ mkCell fx [("F1"%string, 1)] 0%nat; mkCell A [] 0%nat; mkCell B [] 0%nat;
             mkCell C [("S"%string, qc 3 8); ("H"%string, qc 1 4)] 0%nat ],
         [mkH (S1 (qc 7 2)) true; mkH Hm false; mkH Fm false]);
        (NSetCenter WInPlace 0 (qc 3 1) (qc 2 1), false, NONone,
         [mkH (S1 (qc 3 1)) true; mkH Hm false; mkH Fm false]);
        (NProbe, false, NONone, [mkH (S1 (qc 3 1)) true; mkH Hm false; mkH Fm false]);
        (NMoveRect WInPlace 1 0 (qc 5 2) (qc 1 2), false, NONone,
         [mkH (S1 (qc 3 1)) true; mkH H2 false; mkH Fm false]);
        (NAlloc false, false,
         NOAccept [0; 0; 0; 0]%Z
           [ mkCell fx [("F1"%string, 1)] 0%nat; mkCell A [] 0%nat; mkCell B [] 0%nat;
             mkCell C [("S"%string, qc 1 2); ("H"%string, qc 1 4)] 0%nat ],
         [mkH (S1 (qc 3 1)) true; mkH H2 false; mkH Fm false]) ] = true.
  Proof. vm_compute. reflexivity. Qed.
End ExH.
