(* Comparators for the C07 correspondence: the model's run of a posting sequence against what
   the implementation produced.

   What C07 constrains is compared exactly: which posts are accepted / refused, and the set of
   user assignments that extend to a model of the generated CNF.  What it leaves open is not: the
   order of the clauses and of the literals in a clause, repetitions, the numbering of the diagram
   nodes (robdd_<id>), the order in which names were registered (solver numbering), the order of
   the `codified` bookkeeping, the numbering of the at-most-one links (aux_<n>).  [structural_ok]: the implementation's CNF is the model's CNF as a
   set of clauses (sets of literals) after translating the node ids through the store entries
   (Cases/CmpC07Set.v) - then C07_post_exact speaks about the implementation's CNF itself.  When the
   form differs (another numbering of the at-most-one links, another but equivalent diagram ...)
   [sem_ok] decides: the assignments observed to extend (PySAT under assumptions; all 2^n for up to
   10 user variables) must be exactly those the model's theorem predicts (PB/SatBool.v). *)
From Coq Require Import ZArith List Bool String.
From FrameModel Require Import PB.Expr PB.Cnf PB.Amo PB.Robdd PB.Codify PB.Sat PB.SatBool Cases.CmpC07Set.
Import ListNotations.

Fixpoint leqb {A} (f : A -> A -> bool) (a b : list A) : bool :=
  match a, b with
  | [], [] => true
  | x :: a', y :: b' => f x y && leqb f a' b'
  | _, _ => false
  end.

Record c07_obs := mkObs {
  o_newmem : memory;          (* memory entries appended by the posts *)
  o_clauses : cnf;
  o_aux : nat;
  o_codified : list nat;
  o_vtable : list var;
  o_status : list status
}.

(* the observed extendability of user assignments (bit j of a mask = variable j of [users]) *)
Inductive c07_sem :=
| SemNone
| SemFull (users : list string) (bits : N)                 (* all 2^n masks: bit m of bits *)
| SemTable (users : list string) (tab : list (N * bool)).  (* some masks *)
Definition sem_ok (sem : c07_sem) (ps : list post) (sts : list status) : bool :=
  match sem with
  | SemNone => false
  | SemFull u b => sem_full u ps sts b
  | SemTable u tab => sem_table u ps sts tab
  end.

(* [mi]: the implementation's whole store (its order); [m], [s]: the model's *)
Definition structural_ok (mi m : memory) (s : mgr) (o : c07_obs) : bool :=
  match node_map m mi with
  | None => false
  | Some phi =>
      nodes_known phi (o_clauses o) &&
      cnf_seteqb_aux (clauses s) (ren_cnf phi (o_clauses o)) (vtable s) (map (ren_var phi) (o_vtable o)) &&
      Nat.eqb (auxcount s) (o_aux o) &&
      nats_seteqb (codified s)
                  (map (fun id => match phi_get phi id with Some j => j | None => id end) (o_codified o))
  end.

Definition c07_check (m0 : memory) (ps : list post) (o : c07_obs) (sem : c07_sem) : bool :=
  match run_posts m0 empty_mgr ps with
  | None => false
  | Some (m, s, sts) =>
      leqb status_eqb sts (o_status o) &&
      (if structural_ok (m0 ++ o_newmem o) m s o then true else sem_ok sem ps sts)
  end.
(* the two parts separately (statistics, replay files) *)
Definition c07_structural (m0 : memory) (ps : list post) (o : c07_obs) : bool :=
  match run_posts m0 empty_mgr ps with
  | None => false
  | Some (m, s, sts) => structural_ok (m0 ++ o_newmem o) m s o
  end.
(* which part differs (for replay files) *)
Definition c07_show (m0 : memory) (ps : list post) :=
  match run_posts m0 empty_mgr ps with
  | None => None
  | Some (m, s, sts) => Some (skipn (List.length m0) m, clauses s, auxcount s, codified s, vtable s, sts)
  end.
