(* Comparators for the C07 correspondence: the model's run of a posting
   sequence against what the implementation produced. *)
From Coq Require Import ZArith List Bool String.
From FrameModel Require Import PB.Expr PB.Cnf PB.Amo PB.Robdd PB.Codify PB.Sat.
Import ListNotations.

Fixpoint leqb {A} (f : A -> A -> bool) (a b : list A) : bool :=
  match a, b with
  | [], [] => true
  | x :: a', y :: b' => f x y && leqb f a' b'
  | _, _ => false
  end.

Record c07_obs := mkObs {
  o_newmem : memory;          (* memory entries appended by the posts *)
  o_clauses : cnf;
  o_aux : nat;
  o_codified : list nat;
  o_vtable : list var;
  o_status : list status
}.

Definition c07_check (m0 : memory) (ps : list post) (o : c07_obs) : bool :=
  match run_posts m0 empty_mgr ps with
  | None => false
  | Some (m, s, sts) =>
      leqb node_eqb m (m0 ++ o_newmem o) && leqb (leqb lit_eqb) (clauses s) (o_clauses o) &&
      Nat.eqb (auxcount s) (o_aux o) && leqb Nat.eqb (codified s) (o_codified o) &&
      leqb var_eqb (vtable s) (o_vtable o) && leqb status_eqb sts (o_status o)
  end.
(* which part differs (for replay files) *)
Definition c07_show (m0 : memory) (ps : list post) :=
  match run_posts m0 empty_mgr ps with
  | None => None
  | Some (m, s, sts) => Some (skipn (List.length m0) m, clauses s, auxcount s, codified s, vtable s, sts)
  end.
