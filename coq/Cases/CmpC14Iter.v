(* Comparators for the parts of the C14 correspondence that start from the INPUT of the constructor and
   look inside the loop of spectral_layout_die (model: Spectral/Iterate.v). *)
From FrameModel Require Import Num.QcTac Geometry.Rect Cases.Cmp Spectral.Normalize Spectral.Iterate Cases.CmpC14.
Open Scope Qc_scope.

(* ---- the graph: clique model of the input nets vs the adjacency lists observed on the object ---- *)
(* compared as a weighted graph (total weight between every two nodes, self-loops included), not as lists: the
   order inside an adjacency list is not observable through the placement *)
Definition adj_same (n : nat) (a b : adjlist) : bool :=
  Nat.eqb (List.length a) n && Nat.eqb (List.length b) n &&
  forallb (fun i => forallb (fun j => rclose 16 (weight_to a i j) (weight_to b i j)) (seq 0 n)) (seq 0 n).
Definition graph_ok (n : nat) (nets : list net) (obs : adjlist) : bool :=
  match clique_adj n nets with Ok a => adj_same n a obs | _ => false end.

(* ---- several calls on one object BUILT BY THE MODEL FROM THE INPUT (modules and nets as handed to the
   constructor); the model runs on its own state, its own graph included ---- *)
Fixpoint session_okB {B : Type} (thr tol : Qc) (s : sess Qc B) (steps : list step_rec) : bool :=
  match steps with
  | [] => true
  | (W, H, nf, trs, o) :: rest =>
      match sess_step thr (rnd_of trs (W * half) (H * half)) (produce_of trs) (niter_of trs) W H nf s, o with
      | Ok s', Some out =>
          list_eqb (smod_close tol) (ss_mods s') out &&
          starts_ok tol trs (W * half) (H * half) (List.length trs) 0 (ss_fx s)
                    (fst (sess_centres nf s)) (snd (sess_centres nf s)) &&
          session_okB thr tol s' rest
      | Ok _, None => false
      | _, Some _ => false
      | _, None => true
      end
  end.
Definition session_input (thr tol : Qc) (ms : list (smod Qc)) (nets : list net) (obs_adj : adjlist)
           (steps : list step_rec) : bool :=
  match spectral_new (fun m => s_other m) ms nets with
  | Ok s => adj_same (List.length ms) (ss_adj s) obs_adj && session_okB thr tol s steps
  | _ => match steps with (_, _, _, _, None) :: _ => true | _ => false end
  end.

(* ---- one recorded iteration of spectral_layout_die ---- *)
Definition maxabs (v : list Qc) : Qc := fold_right (fun x m => Qcmax (Qcabs x) m) 0 v.

(* [c] = the row at the start of the iteration (the output of the previous normalize call), [v_obs] = the row
   handed to the next normalize call, [c'] = what that call returned.
   1. The model's row [iter_vec] must be the observed one.  Where the spread of the new row is within a factor 2
      of epsilon the path taken is decided by the last bits: either path is accepted.
   2. The convergence test after the iteration: the loop goes on iff the normalised dot product of the
      orthogonalised row and the new row is outside [1 - eps, 1 + eps].  [last] = no further iteration was observed;
      [limit] = the iteration limit was reached (then the test does not matter).  Not compared within eps/1000 of a
      bound, nor when the orthogonalised row is 30 times smaller than the row (cancellation).
   A row that vanishes EXACTLY under orthogonalisation (ZeroDivisionError in the model) leaves an arbitrary 1e-16
   residue in binary64: not compared.  (vm_compute is strict: the alternatives sit in branches of [if].) *)
Definition stop_part (eps : Qc) (fm c co c' : list Qc) (last limit : bool) : bool :=
  if Qcltb (maxabs co * qc 30 1) (maxabs c) then true else
  match abs_norm_dot_product co c' fm with
  | Ok dp =>
      let band := eps * qc 1 1000 in
      if Qcltb (Qcabs (dp - (1 - eps))) band then true
      else if Qcltb (Qcabs (dp - (1 + eps))) band then true
      else if last then (if limit then true else negb (goes_on eps dp)) else goes_on eps dp
  | ZeroDiv => true
  | _ => false
  end.

Definition step_ok (atol eps tol : Qc) (adj : adjlist) (mass : list Qc) (fx : list bool)
           (prev : list (list Qc)) (c v_obs c' : list Qc) (last limit : bool) : bool :=
  let fm := float_mass mass fx in
  let deg := degrees adj in
  let try e := match iter_vec atol e adj deg fm fx prev c with
               | Ok (_, v) => list_eqb (aclose tol) v v_obs
               | _ => false
               end in
  match iter_vec atol eps adj deg fm fx prev c with
  | Ok (co, v) =>
      if (if list_eqb (aclose tol) v v_obs then true else if try (eps * qc 2 1) then true else try (eps * half))
      then stop_part eps fm c co c' last limit else false
  | ZeroDiv => true
  | _ => false
  end.
