(* Checker used by the correspondence of C06 on object histories (Stog/StogHist.v).

   The harness drives real Rectangle objects through a sequence of operations and
   records, after every operation, the value of every object of the pool.  The checker
   replays the sequence: for an operation other than a call the model's new pool must
   equal the observed one exactly; for a call the answer must be the model's answer on
   the CURRENT VALUES of the objects, the observed output must pass the verified
   post-condition checker [stog_post_ok] (so the choice among several valid trunks stays
   free, as in the single-call correspondence), the list must have been permuted only
   (the property allows any reordering, also on a negative answer, where the code as it is
   keeps the order: Stog/StogHist.v call_spec), no geometry may have changed and no object outside
   the list may have been touched. *)
From FrameModel Require Import Num.QcTac Geometry.Rect Cases.Cmp Stog.CreateStog Stog.StogFacts
  Stog.StogPost Stog.StogHist Stog.StogModule.
From Coq Require Import Permutation.
Open Scope list_scope.
Open Scope Qc_scope.

Inductive hobs :=
  | OCall (b : option bool) (idxs' : list nat) (post : list Rect)
  | OProbe (l : loc) (ov : Qc) (post : list Rect)
  | OState (post : list Rect).

Fixpoint untouched (idxs : list nat) (pre post : list Rect) (k : nat) : bool :=
  match pre, post with
  | [], [] => true
  | r :: pre', s :: post' =>
      (existsb (Nat.eqb k) idxs || rect_eqb r s) && untouched idxs pre' post' (S k)
  | _, _ => false
  end.

Definition perm_nat (a b : list nat) : bool :=
  nodupb a && nodupb b && Nat.eqb (List.length a) (List.length b) &&
  forallb (fun x => existsb (Nat.eqb x) b) a.

Definition call_check (eps aeps : Qc) (pre : list Rect) (idxs : list nat) (b : bool)
           (idxs' : list nat) (post : list Rect) : bool :=
  match gather pre idxs, gather post idxs' with
  | Some rs, Some out =>
      opt_eqb Bool.eqb (stog_decision eps aeps rs) (Some b) &&
      stog_post_ok eps aeps rs out b &&
      perm_nat idxs idxs' &&
      list_eqb geom_eqb pre post && untouched idxs pre post 0
  | _, _ => false
  end.

Fixpoint hist_check (eps aeps : Qc) (pool : list Rect) (steps : list (hop * hobs)) : bool :=
  match steps with
  | [] => true
  | (HCall idxs, OCall (Some b) idxs' post) :: rest =>
      call_check eps aeps pool idxs b idxs' post && hist_check eps aeps post rest
  | (HCall idxs, OCall None _ post) :: rest =>
      (* AssertionError: the empty list *)
      match idxs with [] => true | _ => false end &&
      list_eqb rect_eqb pool post && hist_check eps aeps post rest
  | (HProbe i j, OProbe l ov post) :: rest =>
      match nth_error pool i, nth_error pool j with
      | Some a, Some c => loc_eqb (find_location eps aeps a c) l && Qceqb (area_overlap a c) ov
      | _, _ => false
      end && list_eqb rect_eqb pool post && hist_check eps aeps post rest
  | (HCall _, _) :: _ => false
  | (HProbe _ _, _) :: _ => false
  | (op, OState post) :: rest =>
      list_eqb rect_eqb (apply_op pool op) post && hist_check eps aeps post rest
  | _ => false
  end.

(* does the model's own run pick the same trunk?  (evidence only) *)
Definition call_exact (eps aeps : Qc) (pre : list Rect) (idxs : list nat) (b : bool)
           (idxs' : list nat) (post : list Rect) : bool :=
  match call eps aeps pre idxs with
  | Some (b0, ix, p) => Bool.eqb b0 b && list_eqb Nat.eqb ix idxs' && list_eqb rect_eqb p post
  | None => false
  end.

(* what an accepted call step guarantees about the implementation's output *)
Theorem call_check_sound eps aeps pre idxs b idxs' post :
  call_check eps aeps pre idxs b idxs' post = true ->
  exists rs out,
    gather pre idxs = Some rs /\ gather post idxs' = Some out /\
    stog_decision eps aeps rs = Some b /\
    Permutation (map geom rs) (map geom out) /\
    (b = true -> exists t rest, out = t :: rest /\ rloc t = TRUNK /\
       Forall (fun r => rloc r <> NOPOLY /\ rloc r <> TRUNK /\ abuts eps aeps (rloc r) t r) rest) /\
    (b = false -> Forall (fun r => rloc r = NOPOLY) out).
Proof.
  unfold call_check. destruct (gather pre idxs) as [rs|]; [|discriminate].
  destruct (gather post idxs') as [out|]; [|discriminate]. intro H.
  repeat (apply andb_true_iff in H; destruct H as [H ?]).
  exists rs, out. split; [reflexivity|]. split; [reflexivity|]. split.
  - destruct (stog_decision eps aeps rs) as [d|]; cbn in H; [|discriminate].
    apply eqb_prop in H. congruence.
  - match goal with K : stog_post_ok _ _ _ _ _ = true |- _ => apply stog_post_ok_sound in K; exact K end.
Qed.

(* ---------------------------------------------------------------------------------------
   Module histories (Stog/StogModule.v).  The harness drives a real Module (built directly or
   loaded by Netlist) and records after every operation the value of every object, the list
   of objects the module holds (by identity) and, after m.create_stog(), m.has_stog.
   Every operation other than a recognition must reproduce the model's pool and list exactly;
   a recognition is judged like a call of an object history on the module's CURRENT list
   (answer of the model on the current values, verified post-condition checker, permutation,
   geometry unchanged, nothing outside the list touched), the list the module holds afterwards
   must be the observed order and has_stog must equal the answer.
   --------------------------------------------------------------------------------------- *)
Definition post_of (o : hobs) : list Rect :=
  match o with OCall _ _ p => p | OProbe _ _ p => p | OState p => p end.

Definition mcreate_check (eps aeps : Qc) (pool : list Rect) (ml : list nat) (b has : bool)
           (idxs' : list nat) (post : list Rect) : bool :=
  call_check eps aeps pool ml b idxs' post && Bool.eqb has b.

(* a step: the operation, what was observed, the module's list afterwards, has_stog (read after MCreate only) *)
Fixpoint mhist_check (eps aeps : Qc) (pool : list Rect) (ml : list nat)
         (steps : list (mop * hobs * list nat * bool)) : bool :=
  match steps with
  | [] => true
  | (op, o, ml', has) :: rest =>
      match op with
      | MObj h => hist_check eps aeps pool [(h, o)] && list_eqb Nat.eqb ml ml'
      | MCreate | MPlain =>
          match o with
          | OCall (Some b) idxs' post =>
              mcreate_check eps aeps pool ml b (match op with MCreate => has | _ => b end) idxs' post &&
              list_eqb Nat.eqb idxs' ml'
          | OCall None _ post =>
              match ml with [] => true | _ => false end && list_eqb rect_eqb pool post &&
              list_eqb Nat.eqb ml ml' && negb has
          | _ => false
          end
      | _ =>
          match o with
          | OState post =>
              let '(p, l) := mstep pool ml op in list_eqb rect_eqb p post && list_eqb Nat.eqb l ml'
          | _ => false
          end
      end
      && mhist_check eps aeps (post_of o) ml' rest
  end.

Theorem mcreate_check_sound eps aeps pool ml b has idxs' post :
  mcreate_check eps aeps pool ml b has idxs' post = true ->
  has = b /\
  exists rs out,
    gather pool ml = Some rs /\ gather post idxs' = Some out /\
    stog_decision eps aeps rs = Some b /\
    Permutation (map geom rs) (map geom out) /\
    (b = true -> exists t rest, out = t :: rest /\ rloc t = TRUNK /\
       Forall (fun r => rloc r <> NOPOLY /\ rloc r <> TRUNK /\ abuts eps aeps (rloc r) t r) rest) /\
    (b = false -> Forall (fun r => rloc r = NOPOLY) out).
Proof.
  unfold mcreate_check. intro H. apply andb_true_iff in H. destruct H as [H1 H2].
  split; [apply eqb_prop; exact H2|]. apply call_check_sound. exact H1.
Qed.
