(* Comparators for the C13 correspondence: the recorded trace of the real
   fruchterman_reingold_layout (hook FRAME_VERIF=1) against the model's [step],
   [fr_layout] and [select]. *)
From FrameModel Require Import Num.QcTac Cases.Cmp Force.FR.
Open Scope Qc_scope.

Definition vclose (tol : Qc) (a b : vec) : bool :=
  Qcleb (Qcabs (fst a - fst b)) tol && Qcleb (Qcabs (snd a - snd b)) tol.

(* one recorded iteration: temperature, positions, displacements, floored norms -
   all taken after the forces were accumulated and before the update *)
Record irec : Type := mkRec { r_t : Qc; r_pos : list vec; r_disp : list vec; r_nrm : list Qc }.

Definition table (r : irec) (v : nat) : vec * Qc := (nth v (r_disp r) (0, 0), nth v (r_nrm r) 1).

(* every recorded state, pushed through the model's [step] with the recorded
   displacements, gives the next recorded state *)
Fixpoint steps_ok (W H tol : Qc) (fx : list bool) (recs : list irec) (final : list vec) : bool :=
  match recs with
  | [] => true
  | r :: rest =>
      let nxt := match rest with r' :: _ => r_pos r' | [] => final end in
      list_eqb (vclose tol) (step W H (r_t r) fx (r_pos r) (table r)) nxt &&
      steps_ok W H tol fx rest final
  end.

(* the temperature schedule *)
Fixpoint temps_ok (tol t dt : Qc) (recs : list irec) : bool :=
  match recs with
  | [] => true
  | r :: rest => Qcleb (Qcabs (r_t r - t)) tol && temps_ok tol (t - dt) dt rest
  end.

(* the force law "played back" from the trace: what the model is instantiated with *)
Definition replay_force (recs : list irec) (i : nat) (_ : Qc) (_ : list vec) (v : nat) : vec * Qc :=
  match nth_error recs i with Some r => table r v | None => ((0, 0), 1) end.

Definition mods (cs : list (option vec)) (fx : list bool) : list (module unit) :=
  map (fun cf => mkMod (fst cf) (snd cf) tt) (combine cs fx).

(* one run of fruchterman_reingold_layout as recorded by the hook:
   cs/fx   the centres and fixed flags of the input netlist
   recs    the recorded iterations (exactly max_iter of them), final the recorded final positions *)
Definition trace_ok (W H tol : Qc) (max_iter : nat) (cs : list (option vec)) (fx : list bool)
           (recs : list irec) (final : list vec) : bool :=
  let nl := mkNl (mods cs fx) tt in
  let first := match recs with r :: _ => r_pos r | [] => final end in
  Nat.eqb (length cs) (length fx) &&
  Nat.eqb (length recs) max_iter &&
  list_eqb (vclose tol) (map (recentre W H) (modules nl)) first &&
  temps_ok tol (t_init W H) (dt_of W H max_iter) recs &&
  steps_ok W H tol fx recs final &&
  (* the whole model loop, end to end, with the recorded forces *)
  list_eqb (vclose tol) (final_pos (replay_force recs) W H max_iter nl) final.

(* ... and the centres / fixed flags of the netlist it returned *)
Definition run_ok (W H tol : Qc) (max_iter : nat) (cs : list (option vec)) (fx : list bool)
           (recs : list irec) (final : list vec) (out : list vec) : bool :=
  let nl := mkNl (mods cs fx) tt in
  trace_ok W H tol max_iter cs fx recs final &&
  list_eqb (opt_eqb (vclose tol)) (map centre (modules (fr_layout (replay_force recs) W H max_iter nl)))
           (map Some out) &&
  list_eqb Bool.eqb (map is_fixed (modules (fr_layout (replay_force recs) W H max_iter nl))) fx.

(* force_algorithm: the recorded (kappa, cost) list in the order tried, and the kappa
   of the final run; the tried constants are the floats i/10 (compared with the
   model's i/10 within [ktol]), the selection must be the model's, exactly *)
Definition select_ok (ktol : Qc) (kcs : list (Qc * Qc)) (chosen : Qc) : bool :=
  list_eqb (fun a b => Qcleb (Qcabs (a - b)) ktol) (map fst kcs) kappas &&
  Qceqb (select None 0 kcs) chosen.
