(* Comparators for the C13 correspondence: the recorded trace of the real
   fruchterman_reingold_layout (hook FRAME_VERIF=1) against the model's [step],
   [fr_layout] and [select]. *)
From FrameModel Require Import Num.QcTac Cases.Cmp Force.FR.
Open Scope Qc_scope.

Definition vclose (tol : Qc) (a b : vec) : bool :=
  Qcleb (Qcabs (fst a - fst b)) tol && Qcleb (Qcabs (snd a - snd b)) tol.

(* one recorded iteration: temperature, positions, displacements, floored norms -
   all taken after the forces were accumulated and before the update *)
Record irec : Type := mkRec { r_t : Qc; r_pos : list vec; r_disp : list vec; r_nrm : list Qc }.

Definition table (r : irec) (v : nat) : vec * Qc := (nth v (r_disp r) (0, 0), nth v (r_nrm r) 1).

(* every recorded state, pushed through the model's [step] with the recorded
   displacements, gives the next recorded state *)
Fixpoint steps_ok (W H tol : Qc) (fx : list bool) (recs : list irec) (final : list vec) : bool :=
  match recs with
  | [] => true
  | r :: rest =>
      let nxt := match rest with r' :: _ => r_pos r' | [] => final end in
      list_eqb (vclose tol) (step W H (r_t r) fx (r_pos r) (table r)) nxt &&
      steps_ok W H tol fx rest final
  end.

(* the temperature schedule *)
Fixpoint temps_ok (tol t dt : Qc) (recs : list irec) : bool :=
  match recs with
  | [] => true
  | r :: rest => Qcleb (Qcabs (r_t r - t)) tol && temps_ok tol (t - dt) dt rest
  end.

(* the force law "played back" from the trace: what the model is instantiated with *)
Definition replay_force (recs : list irec) (i : nat) (_ : Qc) (_ : list vec) (v : nat) : vec * Qc :=
  match nth_error recs i with Some r => table r v | None => ((0, 0), 1) end.

Definition mods (cs : list (option vec)) (fx : list bool) : list (module unit) :=
  map (fun cf => mkMod (fst cf) (snd cf) tt) (combine cs fx).

(* one run of fruchterman_reingold_layout as recorded by the hook:
   cs/fx   the centres and fixed flags of the input netlist
   recs    the recorded iterations (exactly max_iter of them), final the recorded final positions *)
Definition trace_ok (W H tol : Qc) (max_iter : nat) (cs : list (option vec)) (fx : list bool)
           (recs : list irec) (final : list vec) : bool :=
  let nl := mkNl (mods cs fx) tt in
  let first := match recs with r :: _ => r_pos r | [] => final end in
  Nat.eqb (length cs) (length fx) &&
  Nat.eqb (length recs) max_iter &&
  list_eqb (vclose tol) (map (recentre W H) (modules nl)) first &&
  temps_ok tol (t_init W H) (dt_of W H max_iter) recs &&
  steps_ok W H tol fx recs final &&
  (* the whole model loop, end to end, with the recorded forces *)
  list_eqb (vclose tol) (final_pos (replay_force recs) W H max_iter nl) final.

(* ... and the centres / fixed flags of the netlist it returned *)
Definition run_ok (W H tol : Qc) (max_iter : nat) (cs : list (option vec)) (fx : list bool)
           (recs : list irec) (final : list vec) (out : list vec) : bool :=
  let nl := mkNl (mods cs fx) tt in
  trace_ok W H tol max_iter cs fx recs final &&
  list_eqb (opt_eqb (vclose tol)) (map centre (modules (fr_layout (replay_force recs) W H max_iter nl)))
           (map Some out) &&
  list_eqb Bool.eqb (map is_fixed (modules (fr_layout (replay_force recs) W H max_iter nl))) fx.

(* force_algorithm: the recorded (kappa, cost) list in the order tried, and the kappa
   of the final run; the tried constants are the floats i/10 (compared with the
   model's i/10 within [ktol]), the selection must be the model's, exactly *)
Definition select_ok (ktol : Qc) (kcs : list (Qc * Qc)) (chosen : Qc) : bool :=
  list_eqb (fun a b => Qcleb (Qcabs (a - b)) ktol) (map fst kcs) kappas &&
  Qceqb (select None 0 kcs) chosen.

(* ---------------------------------------------------------------------------------------
   HISTORIES: the model (Force/FRSeq.v) folded over what the harness did to ONE object graph
   - relocation calls on the same Die / Netlist objects, create_squares / Allocation, centres
   written by the caller, deep copies - and compared with what was observed after every step.
   The model state is carried from step to step: the trace of every call is replayed FROM THE
   VALUES THE MODEL HAS REACHED.  At every HCheck the model state is compared with the observed
   one (centres within tol, the rest exactly) and then takes the observed centres - the binary64
   roundings of its own - by SetCentre operations, so that the rationals stay small.
   Payload of a module: the numbers it carries besides its centre (area, per-region areas,
   flags, aspect ratio, every rectangle: centre, shape, flags, location), compared exactly.
   Nets: (module indices, weight).
   --------------------------------------------------------------------------------------- *)
From FrameModel Require Import Force.FRSeq.

Definition pl : Type := list Qc.
Definition cnets : Type := list (list nat * Qc).
Definition cnl : Type := netlist pl cnets.

Fixpoint cmods (cs : list (option vec)) (fx : list bool) (ps : list pl) : list (module pl) :=
  match cs, fx, ps with
  | c :: cs', f :: fx', p :: ps' => mkMod c f p :: cmods cs' fx' ps'
  | _, _, _ => []
  end.

Definition nets_eqb : cnets -> cnets -> bool := list_eqb (pair_eqb (list_eqb Nat.eqb) Qceqb).

(* the model state against an observed state: centres within tol, everything else exactly *)
Definition state_ok (tol : Qc) (nl : cnl) (cs : list (option vec)) (fx : list bool) (ps : list pl) (ns : cnets)
  : bool :=
  list_eqb (opt_eqb (vclose tol)) (map centre (modules nl)) cs &&
  list_eqb Bool.eqb (map is_fixed (modules nl)) fx &&
  list_eqb (list_eqb Qceqb) (map payload (modules nl)) ps &&
  nets_eqb (nets nl) ns.

(* one recorded run of fruchterman_reingold_layout, started from the model state nl *)
Definition trace_ok_nl (W H tol : Qc) (max_iter : nat) (nl : cnl) (recs : list irec) (final : list vec) : bool :=
  let fx := map is_fixed (modules nl) in
  let first := match recs with r :: _ => r_pos r | [] => final end in
  Nat.eqb (length recs) max_iter &&
  list_eqb (vclose tol) (map (recentre W H) (modules nl)) first &&
  temps_ok tol (t_init W H) (dt_of W H max_iter) recs &&
  steps_ok W H tol fx recs final &&
  list_eqb (vclose tol) (final_pos (replay_force recs) W H max_iter nl) final.

(* one trial of force_algorithm: spring constant, recorded cost, recorded run *)
Record trial_rec : Type := mkTrial { tr_kappa : Qc; tr_cost : Qc; tr_recs : list irec; tr_final : list vec }.

Inductive hop : Type :=
| HLayout (max_iter : nat) (recs : list irec) (final : list vec)
| HAlgo (max_iter : nat) (trials : list trial_rec) (chosen : Qc) (recs : list irec) (final : list vec)
| HSetCentre (v : nat) (c : vec)
| HSetPayload (v : nat) (a : pl)
| HCopy
| HCheck (cs : list (option vec)) (fx : list bool) (ps : list pl) (ns : cnets).

(* the force law of force_algorithm played back: the recorded run of the trial of that constant *)
Definition trial_force (trials : list trial_rec) (k : Qc) : law :=
  match find (fun tr => Qceqb (tr_kappa tr) k) trials with
  | Some tr => replay_force (tr_recs tr)
  | None => replay_force []
  end.

(* exact equality of model values, cheaply: a Qc is a REDUCED fraction, so two of them are equal iff
   numerators and denominators are (no cross-multiplication); comparisons stop at the first difference *)
Definition qc_same (a b : Qc) : bool :=
  if Z.eqb (Qnum (this a)) (Qnum (this b)) then Pos.eqb (Qden (this a)) (Qden (this b)) else false.

Lemma qc_same_spec (a b : Qc) : qc_same a b = true <-> a = b.
Proof.
  unfold qc_same. split.
  - destruct (Z.eqb_spec (Qnum (this a)) (Qnum (this b))) as [En|]; [|discriminate].
    intros Ed. apply Pos.eqb_eq in Ed. apply Qc_decomp.
    destruct (this a) as [na da], (this b) as [nb db]; cbn in *. subst. reflexivity.
  - intros ->. rewrite Z.eqb_refl. apply Pos.eqb_refl.
Qed.

Definition vec_same (a b : vec) : bool := if qc_same (fst a) (fst b) then qc_same (snd a) (snd b) else false.
Fixpoint list_same {X} (f : X -> X -> bool) (a b : list X) : bool :=
  match a, b with
  | [], [] => true
  | x :: a', y :: b' => if f x y then list_same f a' b' else false
  | _, _ => false
  end.
Definition centres_eqb (a b : cnl) : bool :=
  list_same (opt_eqb vec_same) (map centre (modules a)) (map centre (modules b)).

(* the model layouts of the trials, each with the cost recorded for it *)
Definition trial_table (W H : Qc) (max_iter : nat) (nl : cnl) (trials : list trial_rec) : list (cnl * Qc) :=
  map (fun tr => (fr_layout (replay_force (tr_recs tr)) W H max_iter nl, tr_cost tr)) trials.

(* the cost function played back: a laid-out netlist costs what was recorded for the (first) trial
   whose model layout it is *)
Definition trial_cost (table : list (cnl * Qc)) (nl' : cnl) : Qc :=
  match find (fun e => centres_eqb (fst e) nl') table with Some e => snd e | None => 0 end.

Fixpoint resync_from (v : nat) (cs : list (option vec)) : list (op pl cnets) :=
  match cs with
  | [] => []
  | Some c :: r => SetCentre v c :: resync_from (S v) r
  | None :: r => resync_from (S v) r
  end.

(* the operations of the model that a step of the harness stands for ([table]: trial_table of an HAlgo step) *)
Definition model_of (table : list (cnl * Qc)) (h : hop) : list (op pl cnets) :=
  match h with
  | HLayout mi recs _ => [Layout (replay_force recs) mi]
  | HAlgo mi trials _ _ _ => [Algo (trial_force trials) (trial_cost table) (map tr_kappa trials) mi]
  | HSetCentre v c => [SetCentre v c]
  | HSetPayload v a => [SetPayload v a]
  | HCopy => [Copy]
  | HCheck cs _ _ _ => resync_from 0 cs
  end.

Definition table_of (W H : Qc) (nl : cnl) (h : hop) : list (cnl * Qc) :=
  match h with HAlgo mi trials _ _ _ => trial_table W H mi nl trials | _ => [] end.

Fixpoint allb {X} (f : X -> bool) (l : list X) : bool :=
  match l with [] => true | x :: r => if f x then allb f r else false end.

(* a recorded run without the end-to-end part (the trials: their model layouts are in the table) *)
Definition trace_steps_ok (W H tol : Qc) (max_iter : nat) (nl : cnl) (recs : list irec) (final : list vec) : bool :=
  let fx := map is_fixed (modules nl) in
  let first := match recs with r :: _ => r_pos r | [] => final end in
  Nat.eqb (length recs) max_iter &&
  list_eqb (vclose tol) (map (recentre W H) (modules nl)) first &&
  temps_ok tol (t_init W H) (dt_of W H max_iter) recs &&
  steps_ok W H tol fx recs final.

Definition layout_is (W H tol : Qc) (l : cnl) (final : list vec) : bool :=
  list_eqb (opt_eqb (vclose tol)) (map centre (modules l))
           (map (fun p => Some (fst p + W * half, snd p + H * half)) final).

Fixpoint trials_ok (W H tol : Qc) (max_iter : nat) (nl : cnl) (trials : list trial_rec) (table : list (cnl * Qc))
  : bool :=
  match trials, table with
  | [], [] => true
  | tr :: r, e :: t =>
      if trace_steps_ok W H tol max_iter nl (tr_recs tr) (tr_final tr) && layout_is W H tol (fst e) (tr_final tr)
      then trials_ok W H tol max_iter nl r t else false
  | _, _ => false
  end.

Definition lookup_layout (trials : list trial_rec) (table : list (cnl * Qc)) (k : Qc) : option cnl :=
  match find (fun te => Qceqb (tr_kappa (fst te)) k) (combine trials table) with
  | Some te => Some (fst (snd te))
  | None => None
  end.

(* what is checked at a step: nl the model state before it, nl' the model state after it *)
Definition hop_ok (W H tol ktol : Qc) (table : list (cnl * Qc)) (nl nl' : cnl) (h : hop) : bool :=
  match h with
  | HLayout mi recs final => trace_ok_nl W H tol mi nl recs final
  | HAlgo mi trials chosen recs final =>
      (* the constants tried are 0.4 .. 1.5 (as floats); every trial run is, step by step and end to end,
         a run of the model from nl *)
      list_eqb (fun a b => Qcleb (Qcabs (a - b)) ktol) (map tr_kappa trials) kappas &&
      trials_ok W H tol mi nl trials table &&
      (* the loop over the recorded costs selects the constant of the final run ... *)
      Qceqb (select None 0 (map (fun tr => (tr_kappa tr, tr_cost tr)) trials)) chosen &&
      (* ... and the model's force_algorithm (nl') is the model layout of that constant *)
      match lookup_layout trials table chosen with Some l => centres_eqb nl' l | None => false end &&
      (* the final run is a run of the model from nl as well *)
      trace_ok_nl W H tol mi nl recs final
  | HCheck cs fx ps ns => state_ok tol nl cs fx ps ns
  | HSetCentre _ _ | HSetPayload _ _ | HCopy => true
  end.

Fixpoint hist_ok (W H tol ktol : Qc) (nl : cnl) (hs : list hop) : bool :=
  match hs with
  | [] => true
  | h :: r =>
      let table := table_of W H nl h in
      let nl' := run_ops W H (model_of table h) nl in
      if hop_ok W H tol ktol table nl nl' h then hist_ok W H tol ktol nl' r else false
  end.

(* the states hist_ok goes through are the states of the model's history *)
Fixpoint model_ops (W H : Qc) (nl : cnl) (hs : list hop) : list (op pl cnets) :=
  match hs with
  | [] => []
  | h :: r => model_of (table_of W H nl h) h ++ model_ops W H (run_ops W H (model_of (table_of W H nl h) h) nl) r
  end.

Lemma hist_ok_final_state W H tol ktol : forall hs nl cs fx ps ns,
  hist_ok W H tol ktol nl (hs ++ [HCheck cs fx ps ns]) = true ->
  state_ok tol (run_ops W H (model_ops W H nl hs) nl) cs fx ps ns = true.
Proof.
  induction hs as [|h r IH]; intros nl cs fx ps ns Hok.
  - cbn [app hist_ok hop_ok] in Hok. cbn [model_ops run_ops fold_left].
    destruct (state_ok tol nl cs fx ps ns); [reflexivity|discriminate].
  - cbn [app hist_ok] in Hok.
    destruct (hop_ok W H tol ktol (table_of W H nl h) nl (run_ops W H (model_of (table_of W H nl h) h) nl) h);
      [|discriminate].
    cbn [model_ops]. unfold run_ops at 1. rewrite fold_left_app.
    apply IH. exact Hok.
Qed.
