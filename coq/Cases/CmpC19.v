(* Comparators used by the generated correspondence files of C19
   (harness/props/c19.py). *)
From FrameModel Require Import Num.QcTac Geometry.Rect Cases.Cmp Alloc.Alloc Cases.CmpAlloc Yaml.Tree
  Yaml.NetlistRead Yaml.NetlistWrite Cases.CmpC0405 Yaml.Netgen Yaml.DieAlloc Yaml.Producers Cases.CmpC19Free.
Open Scope Qc_scope.

(* document trees: numbers within k roundings; the int/float form of a number
   is not compared (no reader looks at it except for the depth of a cell, which
   is compared through the loaded object); mappings as mappings, lists in order *)
Fixpoint ytree_sim (k : Z) (a b : ytree) {struct a} : bool :=
  match a, b with
  | YNum q _, YNum q' _ => qnear k q q'
  | YBool x, YBool y => Bool.eqb x y
  | YStr s, YStr s' => String.eqb s s'
  | YList l, YList l' =>
      (fix go (l : list ytree) (l' : list ytree) : bool :=
         match l, l' with
         | [], [] => true
         | x :: r, y :: r' => ytree_sim k x y && go r r'
         | _, _ => false
         end) l l'
  | YMap m, YMap m' =>
      (* as mappings (a Python dict has distinct keys): same number of entries, every key of m bound
         in m' to a similar value.  The order of the entries of a mapping is nothing a reader looks at
         (the order of the modules is compared through the loaded design, NLoaded) *)
      Nat.eqb (List.length m) (List.length m') &&
      (fix go (m : list (string * ytree)) : bool :=
         match m with
         | [] => true
         | (key, x) :: r => match lookup key m' with
                            | Some y => ytree_sim k x y
                            | None => false
                            end && go r
         end) m
  | _, _ => false
  end.
Definition otree_sim (k : Z) (a : option ytree) (b : option ytree) : bool := opt_eqb (ytree_sim k) a b.

(* what the real reader did with a netlist document *)
Inductive nl_observed : Type :=
| NRejected
| NLoaded (ms : list module) (nets : list net).

(* as module_near of C04/C05, with areas and centres within a few roundings
   (FloorSet terminals are 1e-3 x 1e-3 rectangles: their area is not dyadic) *)
Definition module_sim (a b : module) : bool :=
  String.eqb (m_name a) (m_name b) &&
  opt_eqb (qpair_near 16) (m_center a) (m_center b) &&
  opt_eqb (qpair_near 4) (m_ar a) (m_ar b) &&
  Bool.eqb (m_terminal a) (m_terminal b) && Bool.eqb (m_hard a) (m_hard b) &&
  Bool.eqb (m_fixed a) (m_fixed b) && Bool.eqb (m_flip a) (m_flip b) &&
  list_eqb (pair_eqb String.eqb (qnear 8)) (m_area a) (m_area b) &&
  list_eqb mrect_eqb (m_rects a) (m_rects b).

(* the same rectangles up to order and STOG role (the role of a rectangle is not
   a field of the design; with FloorSet's 1e-3 terminal rectangles the epsilon
   is below the spacing of binary64 at the block coordinates, where the exact
   model and the implementation may label a flush branch differently) *)
Definition mrect_geom_eqb (a b : mrect) : bool :=
  scalar_eqb (mr_x a) (mr_x b) && scalar_eqb (mr_y a) (mr_y b) &&
  scalar_eqb (mr_w a) (mr_w b) && scalar_eqb (mr_h a) (mr_h b) &&
  String.eqb (mr_region a) (mr_region b) && Bool.eqb (mr_fixed a) (mr_fixed b) &&
  Bool.eqb (mr_hard a) (mr_hard b).
Fixpoint remove_first (r : mrect) (l : list mrect) : option (list mrect) :=
  match l with
  | [] => None
  | x :: rest => if mrect_geom_eqb r x then Some rest
                 else match remove_first r rest with Some l' => Some (x :: l') | None => None end
  end.
Fixpoint rects_perm (a b : list mrect) : bool :=
  match a with
  | [] => match b with [] => true | _ => false end
  | r :: rest => match remove_first r b with Some b' => rects_perm rest b' | None => false end
  end.
Definition module_sim_noloc (a b : module) : bool :=
  String.eqb (m_name a) (m_name b) &&
  opt_eqb (qpair_near 64) (m_center a) (m_center b) &&
  opt_eqb (qpair_near 4) (m_ar a) (m_ar b) &&
  Bool.eqb (m_terminal a) (m_terminal b) && Bool.eqb (m_hard a) (m_hard b) &&
  Bool.eqb (m_fixed a) (m_fixed b) && Bool.eqb (m_flip a) (m_flip b) &&
  list_eqb (pair_eqb String.eqb (qnear 8)) (m_area a) (m_area b) &&
  rects_perm (m_rects a) (m_rects b).

Definition loaded_ok_gen (cmp : module -> module -> bool) (epsdef : option (Qc * Qc)) (t : ytree)
           (o : nl_observed) : bool :=
  match read_netlist sqrt_a epsdef t, o with
  | Reject _, NRejected => true
  | Ok n, NLoaded ms nets => list_eqb cmp (nl_modules n) ms && list_eqb net_eqb (nl_nets n) nets
  | _, _ => false
  end.

Definition loaded_ok (epsdef : option (Qc * Qc)) (t : ytree) (o : nl_observed) : bool :=
  match read_netlist sqrt_a epsdef t, o with
  | Reject _, NRejected => true
  | Ok n, NLoaded ms nets =>
      list_eqb module_sim (nl_modules n) ms && list_eqb net_eqb (nl_nets n) nets
  | _, _ => false
  end.

(* a netlist producer: the model's document against the observed one, and the
   model of the reader against the real reader on the observed document *)
(* the documents are compared by what they say (Cases/CmpC19Free.v): modules, nets and rectangles
   in order, the attributes of a module and the top-level keys in any order *)
Definition producer_ok (k : Z) (model : option ytree) (observed : option ytree) (o : nl_observed) : bool :=
  onetlist_doc_sim k model observed &&
  match observed with
  | Some t => loaded_ok None t o
  | None => true
  end.

Definition producer_ok_noloc (k : Z) (model : option ytree) (observed : option ytree) (o : nl_observed) : bool :=
  onetlist_doc_sim k model observed &&
  match observed with
  | Some t => loaded_ok_gen module_sim_noloc None t o
  | None => true
  end.

(* the loaded netlist the string builders start from *)
Definition with_netlist (doc : ytree) (f : netlist -> bool) : bool :=
  match read_netlist sqrt_a None doc with
  | Ok n => f n
  | Reject _ => false
  end.

(* the die *)
Definition rects_eqb := list_eqb rect_eqb.
Definition die_eqb (a b : die) : bool :=
  Qceqb (dw a) (dw b) && Qceqb (dh a) (dh b) && rects_eqb (dblock a) (dblock b) &&
  rects_eqb (dspec a) (dspec b).
(* the written die against the model's by what the reader makes of either (blockages in order,
   specialised regions in order, width, height): how the two classes are interleaved in the list
   is not part of what the document says *)
Definition die_ok (d : die) (written : ytree) (loaded : option die) : bool :=
  die_doc_sim (write_die d) written && opt_eqb die_eqb (read_die written) loaded.

(* the allocation *)
Definition alloc_case_ok (aeps : Qc) (cells : list cell) (written : ytree) (loaded : option (list cell)) : bool :=
  ytree_sim 0 (write_alloc cells) written && opt_eqb cells_eqb (read_alloc aeps written) loaded.

(* named edges: documents and the state afterwards *)
Definition nedge_eqb (a b : nedge) : bool :=
  list_eqb (ytree_sim 0) (ne_modules a) (ne_modules b) && qnear 4 (ne_weight a) (ne_weight b).
