(* C09 - Example: a three-module netlist (soft L-shape, hard trunk + branch, fixed square)
   whose input configuration is legal; legal_input applies to it. *)
From Coq Require Import Reals List Bool String.
From FrameModel Require Import Num.QcTac Legal.Syntax Legal.Build Legal.Sem Legal.LegalFacts Legal.Legal
  Legal.LegalIff Legal.LegalInput.
From Coq Require Import Lia Lra Psatz.
Import ListNotations.
Open Scope R_scope.

Definition ex_nl : list module :=
  [ mkModule false false (qc 5 1)                      (* soft, L-shape: trunk + east branch flush with the bottom *)
      [(LTrunk, mkBox (qc 3 1) (qc 3 1) (qc 2 1) (qc 2 1)); (LEast, mkBox (qc 9 2) (qc 5 2) (qc 1 1) (qc 1 1))];
    mkModule true false (qc 5 1)                       (* hard: the F11 module *)
      [(LTrunk, mkBox (qc 6 1) (qc 6 1) (qc 2 1) (qc 2 1)); (LEast, mkBox (qc 15 2) (qc 6 1) (qc 1 1) (qc 1 1))];
    mkModule true true (qc 4 1)                        (* fixed *)
      [(LTrunk, mkBox (qc 1 1) (qc 8 1) (qc 2 1) (qc 2 1))] ].
Definition ex_dw := qc 10 1.
Definition ex_dh := qc 10 1.
Definition ex_r := qc 2 1.

Lemma ex_builds : exists eqs, build ex_nl ex_dw ex_dh ex_r = Some eqs /\ List.length eqs = 52%nat.
Proof. eexists. split; [vm_compute; reflexivity | vm_compute; reflexivity]. Qed.

Ltac num := unfold ex_dw, ex_dh, ex_r; rewrite ?Qc2R_qc; try lra.
Ltac geo_in := unfold InsideDie, AreaOK, area_of, Attached, Before, near, lft, rgt, bot, top, sep_x, sep_y,
                 X, Y, W, H, input_env, box_of, nrects, branches in *;
               cbn [nth_error ex_nl umod_of split_roles m_rects all_boxes
                 branches u_trunk u_N u_S u_E u_W app box_get bx by_ bw bh sum_n m_area pow List.length] in *.
Ltac small i Hi := unfold nrects, branches in Hi; simpl in Hi; destruct i as [|[|i]]; try lia.
Ltac ids H := unfold side_ids, first_id, side_boxes in H; simpl in H.

Example ex_input_legal : InputLegal (Qc2R ex_dw) (Qc2R ex_dh) (Qc2R ex_r) ex_nl.
Proof.
  split.
  - intros m M HM.
    destruct m as [|[|[|m]]]; cbn in HM; try (destruct m; discriminate); inversion HM; subst M; clear HM;
      (split; [|split; [|split; [|split; [|split]]]]).
    1,2,3,7,8,9,13,14,15: intros i Hi; small i Hi; geo_in; num; repeat split; num.
    1,4,7: geo_in; num.
    1,3,5: intros s i Hi; destruct s; ids Hi; try tauto; destruct Hi as [E|[]]; subst i; geo_in; num; repeat split; num.
    all: intros s a b Ha Hb Hne; destruct s; ids Ha; ids Hb; try tauto;
         destruct Ha as [E1|[]]; destruct Hb as [E2|[]]; congruence.
  - intros m n M N Hmn HM HN i j Hi Hj.
    destruct m as [|[|[|m]]]; cbn in HM; try (destruct m; discriminate); inversion HM; subst M; clear HM;
      destruct n as [|[|[|n]]]; try lia; cbn in HN; try (destruct n; discriminate); inversion HN; subst N; clear HN;
      small i Hi; small j Hj; geo_in; num; (left; num; fail) || (right; num).
Qed.

(* hence every generated equation is met by the input, for every annealing slack *)
Example ex_input_met : forall eps, 0 <= eps -> exists eqs,
  build ex_nl ex_dw ex_dh ex_r = Some eqs /\ Forall (met eps (input_env ex_nl)) eqs.
Proof.
  intros eps Heps. destruct ex_builds as [eqs [Hb _]]. exists eqs. split; [exact Hb|].
  apply (legal_input ex_nl ex_dw ex_dh ex_r eqs eps); try assumption.
  - unfold ex_r. rewrite Qc2R_qc. lra.
  - apply ex_input_legal.
Qed.
