(* C09 - what a legal floorplan is, stated geometrically over the real numbers.

   A configuration [v] gives every rectangle i of every module m a centre (X, Y) and a size
   (W, H).  [Legal d tau dw dh r nl v] says that v is a legal floorplan of the netlist nl in
   the die dw x dh with aspect-ratio limit r, every clause relaxed by the slack d (the code
   relaxes by d = epsilon + 1e-6) and overlaps admitted up to the smoothing tolerance tau.
   With d = 0 the clauses are the crisp geometric ones (LegalIff.v: crisp_* lemmas). *)
From Coq Require Import Reals List Bool.
From FrameModel Require Import Num.QcTac Legal.Syntax Legal.Build Legal.Sem Legal.LegalFacts.
From Coq Require Import Lia Lra Psatz.
Import ListNotations.
Open Scope R_scope.

Section Geometry.
  Variable v : env.
  Definition X m i := v VX m i.
  Definition Y m i := v VY m i.
  Definition W m i := v VW m i.
  Definition H m i := v VH m i.
  Definition lft m i := X m i - W m i / 2.
  Definition rgt m i := X m i + W m i / 2.
  Definition bot m i := Y m i - H m i / 2.
  Definition top m i := Y m i + H m i / 2.

  Variable d : R.                       (* slack *)

  (* z is a, up to d *)
  Definition near (a z : R) : Prop := z >= a - d /\ z <= a + d.

  (* inside the die [0,dw] x [0,dh] *)
  Definition InsideDie (dw dh : R) m i : Prop :=
    lft m i >= 0 - d /\ bot m i >= 0 - d /\ rgt m i <= dw + d /\ top m i <= dh + d.

  (* aspect ratio within the limit r: for d = 0 and r >= 1 this is W <= r*H /\ H <= r*W
     (thin_iff); the code scales the test by 10 before relaxing it *)
  Definition AspectOK (r : R) m i : Prop :=
    10 * thinR (W m i) (H m i) >= 10 * thinR r 1 - d.

  Fixpoint sum_n (f : nat -> R) (n : nat) : R :=
    match n with O => 0 | S k => sum_n f k + f k end.
  Definition area_of m (c : nat) : R := sum_n (fun i => W m i * H m i) c.
  Definition AreaOK (a : R) m c : Prop := area_of m c >= a - d.

  (* branch i abuts side s of the trunk (rectangle 0) and stays within the trunk's extent *)
  Definition Attached (s : side) m i : Prop :=
    match s with
    | North => near (top m 0%nat) (bot m i) /\ lft m i >= lft m 0%nat - d /\ rgt m i <= rgt m 0%nat + d
    | South => near (bot m 0%nat) (top m i) /\ lft m i >= lft m 0%nat - d /\ rgt m i <= rgt m 0%nat + d
    | East => near (rgt m 0%nat) (lft m i) /\ bot m i >= bot m 0%nat - d /\ top m i <= top m 0%nat + d
    | West => near (lft m 0%nat) (rgt m i) /\ bot m i >= bot m 0%nat - d /\ top m i <= top m 0%nat + d
    end.

  (* branch a lies entirely before branch b along the side *)
  Definition Before (s : side) m a b : Prop :=
    match s with
    | North | South => rgt m a <= lft m b + d
    | East | West => top m a <= bot m b + d
    end.

  (* rectangles (m,i) and (n,j) do not overlap, up to the smoothing tolerance tau:
     t1 >= 0 says they are separated in x (|dx| >= (w1+w2)/2), t2 >= 0 in y; when both are
     negative (interiors overlap) the product of the two depth measures is at most tau^2 *)
  Definition sep_x m i n j : R := (X m i - X n j) ^ 2 - (W m i + W n j) ^ 2 / 4.
  Definition sep_y m i n j : R := (Y m i - Y n j) ^ 2 - (H m i + H n j) ^ 2 / 4.
  Definition NoOverlap (tau : R) m i n j : Prop :=
    sep_x m i n j + d >= 0 \/ sep_y m i n j + d >= 0 \/
    (sep_x m i n j + d) * (sep_y m i n j + d) <= tau * tau.

  (* module m is a translate of its original shape: every rectangle keeps its size and its
     offset from the trunk *)
  Definition Rigid (U : umod) m : Prop :=
    forall i b, nth_error (all_boxes U) i = Some b ->
      near (Qc2R (bw b)) (W m i) /\ near (Qc2R (bh b)) (H m i) /\
      (i <> 0%nat ->
       near (Qc2R (bx b - bx (u_trunk U)) + X m 0%nat) (X m i) /\
       near (Qc2R (by_ b - by_ (u_trunk U)) + Y m 0%nat) (Y m i)).

  (* ... and has not moved *)
  Definition InPlace (U : umod) m : Prop :=
    near (Qc2R (bx (u_trunk U))) (X m 0%nat) /\ near (Qc2R (by_ (u_trunk U))) (Y m 0%nat).

  Definition LegalMod (dw dh r : R) (m : nat) (M : module) : Prop :=
    let U := umod_of M in
    let c := nrects U in
    (forall i, (i < c)%nat -> InsideDie dw dh m i) /\
    (forall i, (i < c)%nat -> AspectOK r m i) /\
    AreaOK (Qc2R (m_area M)) m c /\
    (forall s i, In i (side_ids U s) -> Attached s m i) /\
    (forall s a b, In (a, b) (adjacent_pairs (sorted_side U s)) -> Before s m a b) /\
    (m_hard M = true -> Rigid U m) /\
    (m_fixed M = true -> InPlace U m).

  Definition Legal (tau dw dh r : R) (nl : list module) : Prop :=
    (forall m M, nth_error nl m = Some M -> LegalMod dw dh r m M) /\
    (forall m n M N, (m < n)%nat -> nth_error nl m = Some M -> nth_error nl n = Some N ->
       forall i j, (i < nrects (umod_of M))%nat -> (j < nrects (umod_of N))%nat ->
         NoOverlap tau m i n j).
End Geometry.
