(* C09 - the generated equations are met exactly by the legal floorplans. *)
From Coq Require Import Reals List Bool String.
From FrameModel Require Import Num.QcTac Legal.Syntax Legal.Build Legal.Sem Legal.LegalFacts Legal.Legal.
From Coq Require Import Lia Lra Psatz.
Import ListNotations.
Open Scope R_scope.

(* ------------------------------------------------------------------ *)
(* lists                                                              *)
(* ------------------------------------------------------------------ *)
Lemma Forall_number_from {A} (P : nat * A -> Prop) l : forall k,
  Forall P (number_from k l) <-> forall i x, nth_error l i = Some x -> P ((k + i)%nat, x).
Proof.
  induction l as [|a l IH]; intro k; simpl.
  - split; [intros _ i x Hx; destruct i; discriminate | constructor].
  - rewrite Forall_cons_iff, IH. split.
    + intros [Ha Hl] i x Hx. destruct i; simpl in Hx.
      * inversion Hx; subst. now rewrite Nat.add_0_r.
      * replace (k + S i)%nat with (S k + i)%nat by lia. now apply Hl.
    + intro Hall. split.
      * specialize (Hall 0%nat a eq_refl). now rewrite Nat.add_0_r in Hall.
      * intros i x Hx. replace (S k + i)%nat with (k + S i)%nat by lia. now apply Hall.
Qed.

Lemma Forall_numbered {A} (P : nat * A -> Prop) l :
  Forall P (numbered l) <-> forall i x, nth_error l i = Some x -> P (i, x).
Proof. unfold numbered. rewrite Forall_number_from. reflexivity. Qed.

Lemma Forall_seq (Q : nat -> Prop) n : forall a,
  Forall Q (seq a n) <-> forall i, (a <= i < a + n)%nat -> Q i.
Proof.
  induction n as [|n IH]; intro a; simpl.
  - split; [intros _ i Hi; lia | constructor].
  - rewrite Forall_cons_iff, IH. split.
    + intros [Ha Hl] i Hi. destruct (Nat.eq_dec i a); [subst; assumption | apply Hl; lia].
    + intro Hall. split; [apply Hall; lia | intros i Hi; apply Hall; lia].
Qed.

Lemma Forall_map_iff {A B} (P : B -> Prop) (f : A -> B) l :
  Forall P (map f l) <-> Forall (fun x => P (f x)) l.
Proof. apply Forall_map. Qed.

Lemma In_seq_iff a n i : In i (seq a n) <-> (a <= i < a + n)%nat.
Proof. apply in_seq. Qed.

(* ------------------------------------------------------------------ *)
(* evaluation of the building blocks                                  *)
(* ------------------------------------------------------------------ *)
Lemma eval_eadd v a b : eval v (eadd a b) = eval v a + eval v b.
Proof. destruct a, b; simpl; try reflexivity. apply Qc2R_add. Qed.
Lemma eval_esub v a b : eval v (esub a b) = eval v a - eval v b.
Proof. destruct a, b; simpl; try reflexivity. apply Qc2R_sub. Qed.
Lemma eval_emul v a b : eval v (emul a b) = eval v a * eval v b.
Proof. destruct a, b; simpl; try reflexivity. apply Qc2R_mul. Qed.

Lemma nat_of_Qc_2 : nat_of_Qc (qc 2 1) = Some 2%nat.
Proof. vm_compute. reflexivity. Qed.

Lemma eval_sq v a : (forall q, a <> Cst q) -> eval v (epow a c_two) = eval v a ^ 2.
Proof.
  intro H. destruct a; try (exfalso; eapply H; reflexivity);
    unfold epow, c_two; cbn [eval]; rewrite nat_of_Qc_2; reflexivity.
Qed.

Lemma eval_hlf v : eval v hlf = 1 / 2.
Proof. unfold hlf. simpl. apply Qc2R_half. Qed.

Ltac ev := repeat first [rewrite eval_eadd | rewrite eval_esub | rewrite eval_emul | rewrite eval_hlf].

Lemma met_soft eps v g nm l c r :
  met eps v (mkEq g nm l c r false) <->
  match c with
  | LE => eval v l <= eval v r + (eps + met_tol)
  | GE => eval v l >= eval v r - (eps + met_tol)
  | EQ => near (eps + met_tol) (eval v r) (eval v l)
  end.
Proof. unfold met, near; simpl. destruct c; reflexivity. Qed.
(* ------------------------------------------------------------------ *)
(* Bounds, Shapes, Attach                                             *)
(* ------------------------------------------------------------------ *)
Lemma eval_var v k m i : eval v (Var k m i) = v k m i.
Proof. reflexivity. Qed.

Ltac vars := unfold vX, vY, vW, vH; rewrite ?eval_var.
Ltac geo := unfold InsideDie, Attached, Before, near, lft, rgt, bot, top, X, Y, W, H in *.

Lemma bounds_met eps v dw dh m i :
  Forall (met eps v) (bounds_eqs dw dh m i) <-> InsideDie v (eps + met_tol) (Qc2R dw) (Qc2R dh) m i.
Proof.
  unfold bounds_eqs. rewrite !Forall_cons_iff, !met_soft. ev. vars. unfold c_zero. cbn [eval].
  rewrite Qc2R_0. geo. split; intros; repeat match goal with H : _ /\ _ |- _ => destruct H end;
    repeat split; try apply Forall_nil; lra.
Qed.

Lemma Qc_sq_plus_one_neq0 (r : Qc) : (r * r + 1 * 1)%Qc <> 0%Qc.
Proof.
  intro E. apply (f_equal Qc2R) in E. rewrite Qc2R_add, !Qc2R_mul, Qc2R_1, Qc2R_0 in E.
  generalize dependent (Qc2R r). intros x E. nra.
Qed.

Lemma thinq_R r : Qc2R (thinq r 1) = thinR (Qc2R r) 1.
Proof.
  unfold thinq, thinR. rewrite Qc2R_div by apply Qc_sq_plus_one_neq0.
  rewrite Qc2R_add, !Qc2R_mul, Qc2R_1. reflexivity.
Qed.

Lemma Qc2R_10 : Qc2R (qc 10 1) = 10.
Proof. rewrite Qc2R_qc. lra. Qed.

Lemma shape_met eps v r m i :
  met eps v (shape_eq r m i) <-> AspectOK v (eps + met_tol) (Qc2R r) m i.
Proof.
  unfold shape_eq. rewrite met_soft. unfold thin_e, vW, vH, c_ten. cbn [emul eadd ediv eval].
  rewrite Qc2R_mul, thinq_R, Qc2R_10. unfold AspectOK, thinR, W, H. split; intro; lra.
Qed.

Lemma attach_met eps v s m i :
  Forall (met eps v) (attach_eqs s m i) <-> Attached v (eps + met_tol) s m i.
Proof.
  destruct s; unfold attach_eqs; rewrite !Forall_cons_iff, !met_soft;
    unfold lo_x, hi_x, lo_y, hi_y; ev; vars; geo;
    (split; intros; repeat match goal with H : _ /\ _ |- _ => destruct H end;
     repeat split; try apply Forall_nil; lra).
Qed.

(* ------------------------------------------------------------------ *)
(* Area                                                               *)
(* ------------------------------------------------------------------ *)
Lemma area_e_S m c : area_e m (S c) = eadd (area_e m c) (emul (vW m c) (vH m c)).
Proof. unfold area_e. rewrite seq_S, fold_left_app. reflexivity. Qed.

Lemma eval_area v m c : eval v (area_e m c) = area_of v m c.
Proof.
  induction c as [|c IH].
  - unfold area_e, area_of. simpl. apply Qc2R_0.
  - rewrite area_e_S. ev. rewrite IH. vars. reflexivity.
Qed.

Lemma area_met eps v m c a :
  met eps v (area_eq m c a) <-> AreaOK v (eps + met_tol) (Qc2R a) m c.
Proof. unfold area_eq. rewrite met_soft, eval_area. reflexivity. Qed.

(* ------------------------------------------------------------------ *)
(* Intra                                                              *)
(* ------------------------------------------------------------------ *)
Lemma intra_met eps v s m k a b :
  met eps v (intra_eq s m k a b) <-> Before v (eps + met_tol) s m a b.
Proof.
  destruct s; unfold intra_eq; rewrite met_soft; ev; vars; geo; split; intro; lra.
Qed.

Lemma intra_side_met eps v U m s :
  Forall (met eps v) (intra_side U m s) <->
  forall a b, In (a, b) (adjacent_pairs (sorted_side U s)) -> Before v (eps + met_tol) s m a b.
Proof.
  unfold intra_side. rewrite Forall_map_iff, Forall_numbered. split.
  - intros Hall a b Hin. apply In_nth_error in Hin. destruct Hin as [k Hk].
    specialize (Hall k (a, b) Hk). cbn [fst snd] in Hall. now apply intra_met in Hall.
  - intros Hall k [a b] Hk. cbn [fst snd]. apply intra_met. apply Hall. eapply nth_error_In; eauto.
Qed.

(* ------------------------------------------------------------------ *)
(* Inter                                                              *)
(* ------------------------------------------------------------------ *)
Lemma Qc2R_quarter : Qc2R (qc 1 4) = 1 / 4.
Proof. rewrite Qc2R_qc. reflexivity. Qed.
Lemma Qc2R_4 : Qc2R (qc 4 1) = 4.
Proof. rewrite Qc2R_qc. lra. Qed.

Lemma eval_t1 v m i n j : eval v (t1_e m i n j) = sep_x v m i n j.
Proof.
  unfold t1_e. ev. rewrite !eval_sq by (unfold esub, eadd, vX, vW; intros q E; discriminate).
  ev. vars. unfold c_qrt. cbn [eval]. rewrite Qc2R_quarter. unfold sep_x, X, W. field.
Qed.
Lemma eval_t2 v m i n j : eval v (t2_e m i n j) = sep_y v m i n j.
Proof.
  unfold t2_e. ev. rewrite !eval_sq by (unfold esub, eadd, vY, vH; intros q E; discriminate).
  ev. vars. unfold c_qrt. cbn [eval]. rewrite Qc2R_quarter. unfold sep_y, Y, H. field.
Qed.

Lemma t1_is_sub m i n j : exists a b, t1_e m i n j = Sub a b.
Proof. do 2 eexists. reflexivity. Qed.
Lemma t2_is_sub m i n j : exists a b, t2_e m i n j = Sub a b.
Proof. do 2 eexists. reflexivity. Qed.

Lemma eval_smax v x y tau : (exists a b, x = Sub a b) -> (exists a b, y = Sub a b) ->
  eval v (smax_e x y (Cst tau)) = smaxR (eval v x) (eval v y) (Qc2R tau).
Proof.
  intros [a [b ->]] [a' [b' ->]]. unfold smax_e, esqrt. ev. cbn [eval]. ev.
  rewrite eval_sq by (unfold esub; intros q E; discriminate). ev.
  unfold c_four. cbn [eval]. rewrite Qc2R_4. unfold smaxR. reflexivity.
Qed.

Lemma inter_met eps v tau m i n j :
  met eps v (inter_eq tau m i n j) <-> NoOverlap v (eps + met_tol) (Qc2R tau) m i n j.
Proof.
  unfold inter_eq. rewrite met_soft. rewrite eval_smax by (apply t1_is_sub || apply t2_is_sub).
  rewrite eval_t1, eval_t2. unfold c_zero. cbn [eval]. rewrite Qc2R_0.
  replace (0 - (eps + met_tol)) with (- (eps + met_tol)) by lra.
  rewrite smax_ge. reflexivity.
Qed.
(* ------------------------------------------------------------------ *)
(* Inter: the double loop over module pairs                           *)
(* ------------------------------------------------------------------ *)
Lemma inter_pair_met (P : eqn -> Prop) tau m cm n cn :
  Forall P (inter_pair tau m cm n cn) <->
  forall i j, (i < cm)%nat -> (j < cn)%nat -> P (inter_eq tau m i n j).
Proof.
  unfold inter_pair. rewrite Forall_flat_map, Forall_seq. split.
  - intros Hall i j Hi Hj. specialize (Hall i ltac:(lia)).
    rewrite Forall_map_iff, Forall_seq in Hall. apply Hall. lia.
  - intros Hall i Hi. rewrite Forall_map_iff, Forall_seq. intros j Hj. apply Hall; lia.
Qed.

Lemma inter_from_met (P : eqn -> Prop) tau cs : forall m,
  Forall P (inter_from tau m cs) <->
  forall a b ca cb, (a < b)%nat -> nth_error cs a = Some ca -> nth_error cs b = Some cb ->
    forall i j, (i < ca)%nat -> (j < cb)%nat -> P (inter_eq tau (m + a) i (m + b) j).
Proof.
  induction cs as [|cm rest IH]; intro m; simpl.
  - split; [intros _ a b ca cb _ Ha; destruct a; discriminate | constructor].
  - rewrite Forall_app, Forall_flat_map, Forall_number_from, IH. split.
    + intros [H1 H2] a b ca cb Hab Ha Hb i j Hi Hj.
      destruct a as [|a].
      * simpl in Ha. inversion Ha; subst ca. destruct b as [|b]; [lia|]. simpl in Hb.
        specialize (H1 b cb Hb). cbn [fst snd] in H1. rewrite inter_pair_met in H1.
        rewrite Nat.add_0_r. replace (m + S b)%nat with (S m + b)%nat by lia. now apply H1.
      * destruct b as [|b]; [lia|]. simpl in Ha, Hb.
        replace (m + S a)%nat with (S m + a)%nat by lia. replace (m + S b)%nat with (S m + b)%nat by lia.
        eapply H2; eauto. lia.
    + intro Hall. split.
      * intros k x Hk. cbn [fst snd]. rewrite inter_pair_met. intros i j Hi Hj.
        specialize (Hall 0%nat (S k) cm x ltac:(lia) eq_refl Hk i j Hi Hj).
        rewrite Nat.add_0_r in Hall. replace (m + S k)%nat with (S m + k)%nat in Hall by lia. exact Hall.
      * intros a b ca cb Hab Ha Hb i j Hi Hj.
        specialize (Hall (S a) (S b) ca cb ltac:(lia) Ha Hb i j Hi Hj).
        replace (m + S a)%nat with (S m + a)%nat in Hall by lia.
        replace (m + S b)%nat with (S m + b)%nat in Hall by lia. exact Hall.
Qed.

(* ------------------------------------------------------------------ *)
(* Fix: the tables written by netlist_to_utils, read back by Model.fix *)
(* ------------------------------------------------------------------ *)
Lemma oget_map (f : module -> optrow) nl m i M : nth_error nl m = Some M ->
  oget (map f nl) m i = match nth_error (f M) i with Some o => o | None => None end.
Proof. intro H. unfold oget. rewrite nth_error_map, H. reflexivity. Qed.

Lemma all_boxes_0 U b : nth_error (all_boxes U) 0 = Some b -> b = u_trunk U.
Proof. simpl. intro H. now inversion H. Qed.

Section FixRows.
  Variables (M : module).
  Let U := umod_of M.
  Hypothesis Hhard : m_hard M = true.

  Lemma row_w_nth i b : nth_error (all_boxes U) i = Some b ->
    nth_error (row_w M U) i = Some (Some (bw b)).
  Proof.
    intro H. unfold row_w. rewrite Hhard.
    change (Some (bw (u_trunk U)) :: map (fun b0 => Some (bw b0)) (branches U))
      with (map (fun b0 => Some (bw b0)) (all_boxes U)).
    rewrite nth_error_map, H. reflexivity.
  Qed.
  Lemma row_h_nth i b : nth_error (all_boxes U) i = Some b ->
    nth_error (row_h M U) i = Some (Some (bh b)).
  Proof.
    intro H. unfold row_h. rewrite Hhard.
    change (Some (bh (u_trunk U)) :: map (fun b0 => Some (bh b0)) (branches U))
      with (map (fun b0 => Some (bh b0)) (all_boxes U)).
    rewrite nth_error_map, H. reflexivity.
  Qed.
  Lemma row_x_nth i b : nth_error (all_boxes U) i = Some b ->
    nth_error (row_x M U) i =
    Some (match i with
          | O => if m_fixed M then Some (bx b) else None
          | S _ => Some (bx b - bx (u_trunk U))%Qc
          end).
  Proof.
    intro H. unfold row_x. rewrite Hhard. destruct i as [|k].
    - apply all_boxes_0 in H. subst b. reflexivity.
    - simpl in H. simpl. rewrite nth_error_map, H. reflexivity.
  Qed.
  Lemma row_y_nth i b : nth_error (all_boxes U) i = Some b ->
    nth_error (row_y M U) i =
    Some (match i with
          | O => if m_fixed M then Some (by_ b) else None
          | S _ => Some (by_ b - by_ (u_trunk U))%Qc
          end).
  Proof.
    intro H. unfold row_y. rewrite Hhard. destruct i as [|k].
    - apply all_boxes_0 in H. subst b. reflexivity.
    - simpl in H. simpl. rewrite nth_error_map, H. reflexivity.
  Qed.
End FixRows.

Lemma utils_inv nl u : netlist_to_utils nl = Some u ->
  forallb module_ok nl = true /\
  u_ml u = map umod_of nl /\ u_al u = map m_area nl /\
  u_xl u = map (fun m => row_x m (umod_of m)) nl /\ u_yl u = map (fun m => row_y m (umod_of m)) nl /\
  u_wl u = map (fun m => row_w m (umod_of m)) nl /\ u_hl u = map (fun m => row_h m (umod_of m)) nl.
Proof.
  unfold netlist_to_utils. destruct (forallb module_ok nl); [|discriminate].
  intro H. inversion H. simpl. repeat split; reflexivity.
Qed.

(* what the Fix equations of rectangle i of a hard module say *)
Definition RigidAt (v : env) (d : R) (U : umod) (m i : nat) (b : box) : Prop :=
  near d (Qc2R (bw b)) (W v m i) /\ near d (Qc2R (bh b)) (H v m i) /\
  (i <> 0%nat ->
   near d (Qc2R (bx b - bx (u_trunk U)) + X v m 0%nat) (X v m i) /\
   near d (Qc2R (by_ b - by_ (u_trunk U)) + Y v m 0%nat) (Y v m i)).

Lemma Qc2R_0plus q : Qc2R (0 + q)%Qc = Qc2R q.
Proof. rewrite Qc2R_add, Qc2R_0. lra. Qed.

Lemma fix_rect_soft nl u m M i : netlist_to_utils nl = Some u -> nth_error nl m = Some M ->
  m_hard M = false -> fix_rect u m i = [].
Proof.
  intros Hu HM Hs. apply utils_inv in Hu. destruct Hu as (_ & _ & _ & Hx & Hy & Hw & Hh).
  unfold fix_rect. rewrite Hx, Hy, Hw, Hh.
  rewrite !(oget_map _ nl m i M HM). unfold row_x, row_y, row_w, row_h. rewrite Hs.
  destruct i; reflexivity.
Qed.

Lemma fix_rect_hard eps v nl u m M i b : netlist_to_utils nl = Some u -> nth_error nl m = Some M ->
  m_hard M = true -> nth_error (all_boxes (umod_of M)) i = Some b ->
  (Forall (met eps v) (fix_rect u m i) <->
   RigidAt v (eps + met_tol) (umod_of M) m i b /\
   (i = 0%nat -> m_fixed M = true -> InPlace v (eps + met_tol) (umod_of M) m)).
Proof.
  intros Hu HM Hh Hb. apply utils_inv in Hu. destruct Hu as (_ & _ & _ & Hx & Hy & Hw & Hhh).
  unfold fix_rect. rewrite Hx, Hy, Hw, Hhh.
  rewrite !(oget_map _ nl m i M HM).
  rewrite (row_x_nth M Hh i b Hb), (row_y_nth M Hh i b Hb), (row_w_nth M Hh i b Hb), (row_h_nth M Hh i b Hb).
  unfold RigidAt, InPlace, near.
  destruct i as [|k].
  - apply all_boxes_0 in Hb. subst b. destruct (m_fixed M); cbn [negb Nat.eqb andb add_opt app];
      unfold c_zero; cbn [eadd]; rewrite ?Forall_cons_iff, !met_soft; unfold near, vX, vY, vW, vH; cbn [eval];
      rewrite !Qc2R_0plus; unfold X, Y, W, H;
      intuition (auto using Forall_nil; try lra; try congruence; try discriminate).
  - cbn [negb Nat.eqb andb add_opt app]. unfold c_zero. cbn [eadd].
    rewrite ?Forall_cons_iff, !met_soft. unfold near, vX, vY, vW, vH. cbn [eval eadd].
    rewrite !Qc2R_0plus. unfold X, Y, W, H.
    intuition (auto using Forall_nil; try lra; try congruence; try discriminate).
Qed.
(* ------------------------------------------------------------------ *)
(* assembling the groups                                              *)
(* ------------------------------------------------------------------ *)
Lemma Forall_mods {B} (P : B -> Prop) (g : nat * umod -> list B) nl :
  Forall P (flat_map g (numbered (map umod_of nl))) <->
  forall m M, nth_error nl m = Some M -> Forall P (g (m, umod_of M)).
Proof.
  rewrite Forall_flat_map, Forall_numbered. split.
  - intros Hall m M HM. apply Hall. rewrite nth_error_map, HM. reflexivity.
  - intros Hall m U HU. rewrite nth_error_map in HU. destruct (nth_error nl m) as [M|] eqn:HM; [|discriminate].
    inversion HU; subst. now apply Hall.
Qed.

Lemma nth_error_combine_map {A B C} (f : A -> B) (g : A -> C) l : forall i,
  nth_error (combine (map f l) (map g l)) i = option_map (fun x => (f x, g x)) (nth_error l i).
Proof. induction l as [|a l IH]; intros [|i]; simpl; auto. Qed.

Lemma Forall_all_sides (Q : side -> Prop) : Forall Q all_sides <-> forall s, Q s.
Proof.
  unfold all_sides. rewrite !Forall_cons_iff. split.
  - intros (A & B & C & D & _) s. destruct s; assumption.
  - intro Hall. repeat split; auto.
Qed.

Lemma nth_error_lt_some {A} (l : list A) i : (i < List.length l)%nat -> exists x, nth_error l i = Some x.
Proof.
  intro H. destruct (nth_error l i) eqn:E; [eauto|]. apply nth_error_None in E. lia.
Qed.

Lemma nrects_all_boxes U : nrects U = List.length (all_boxes U).
Proof. reflexivity. Qed.

Section PerModule.
  Variables (eps : R) (v : env) (dw dh r : Qc) (nl : list module) (u : utils).
  Hypothesis Hu : netlist_to_utils nl = Some u.
  Variables (m : nat) (M : module).
  Hypothesis HM : nth_error nl m = Some M.
  Let U := umod_of M.
  Let d := eps + met_tol.

  Lemma bounds_mod_met :
    Forall (met eps v) (flat_map (bounds_eqs dw dh m) (rect_ids U)) <->
    forall i, (i < nrects U)%nat -> InsideDie v d (Qc2R dw) (Qc2R dh) m i.
  Proof.
    unfold rect_ids. rewrite Forall_flat_map, Forall_seq. split.
    - intros Hall i Hi. apply bounds_met. apply Hall. lia.
    - intros Hall i Hi. apply bounds_met. apply Hall. lia.
  Qed.

  Lemma shapes_mod_met :
    Forall (met eps v) (map (shape_eq r m) (rect_ids U)) <->
    forall i, (i < nrects U)%nat -> AspectOK v d (Qc2R r) m i.
  Proof.
    unfold rect_ids. rewrite Forall_map_iff, Forall_seq. split.
    - intros Hall i Hi. apply shape_met. apply Hall. lia.
    - intros Hall i Hi. apply shape_met. apply Hall. lia.
  Qed.

  Lemma attach_mod_met :
    Forall (met eps v) (attach_mod U m) <->
    forall s i, In i (side_ids U s) -> Attached v d s m i.
  Proof.
    unfold attach_mod. rewrite Forall_flat_map, Forall_all_sides. split.
    - intros Hall s i Hi. specialize (Hall s). rewrite Forall_flat_map, Forall_forall in Hall.
      apply attach_met. now apply Hall.
    - intros Hall s. rewrite Forall_flat_map, Forall_forall. intros i Hi. apply attach_met. now apply Hall.
  Qed.

  Lemma intra_mod_met :
    Forall (met eps v) (intra_mod U m) <->
    forall s a b, In (a, b) (adjacent_pairs (sorted_side U s)) -> Before v d s m a b.
  Proof.
    unfold intra_mod. rewrite Forall_flat_map, Forall_all_sides. split.
    - intros Hall s. apply intra_side_met. apply Hall.
    - intros Hall s. apply intra_side_met. apply Hall.
  Qed.

  Lemma module_ok_M : implb (m_fixed M) (m_hard M) = true.
  Proof.
    apply utils_inv in Hu. destruct Hu as (Hok & _). rewrite forallb_forall in Hok.
    apply Hok. eapply nth_error_In; eauto.
  Qed.

  Lemma fix_mod_met :
    Forall (met eps v) (fix_mod u m (nrects U)) <->
    (m_hard M = true -> Rigid v d U m) /\ (m_fixed M = true -> InPlace v d U m).
  Proof.
    unfold fix_mod. rewrite Forall_flat_map, Forall_seq.
    destruct (m_hard M) eqn:Hh.
    - split.
      + intro Hall. split.
        * intros _ i b Hb. assert (Hi : (i < nrects U)%nat).
          { rewrite nrects_all_boxes. apply nth_error_Some. congruence. }
          specialize (Hall i ltac:(lia)). rewrite (fix_rect_hard eps v nl u m M i b Hu HM Hh Hb) in Hall.
          destruct Hall as [HR _]. exact HR.
        * intro Hf. specialize (Hall 0%nat ltac:(unfold nrects; lia)).
          rewrite (fix_rect_hard eps v nl u m M 0%nat (u_trunk U) Hu HM Hh eq_refl) in Hall.
          destruct Hall as [_ HP]. now apply HP.
      + intros [HR HP] i Hi.
        destruct (nth_error_lt_some (all_boxes U) i) as [b Hb]; [rewrite <- nrects_all_boxes; lia|].
        rewrite (fix_rect_hard eps v nl u m M i b Hu HM Hh Hb). split.
        * apply (HR eq_refl i b Hb).
        * intros _ Hf. now apply HP.
    - pose proof module_ok_M as Hok. rewrite Hh in Hok. destruct (m_fixed M); [discriminate|].
      split.
      + intros _. split; intro; discriminate.
      + intros _ i Hi. rewrite (fix_rect_soft nl u m M i Hu HM Hh). constructor.
  Qed.
End PerModule.

Theorem legal_iff nl dw dh r eqs eps v :
  build nl dw dh r = Some eqs ->
  (Forall (met eps v) eqs <->
   Legal v (eps + met_tol) (Qc2R (tau_of dw dh (List.length nl))) (Qc2R dw) (Qc2R dh) (Qc2R r) nl).
Proof.
  unfold build. destruct (netlist_to_utils nl) as [u|] eqn:Hu; [|discriminate].
  intro E. inversion E; subst eqs; clear E.
  pose proof (utils_inv nl u Hu) as (Hok & Hml & Hal & _).
  unfold build_eqs. rewrite Hml, Hal, map_length. rewrite !Forall_app.
  rewrite Forall_map_iff, Forall_numbered.
  rewrite inter_from_met.
  rewrite !Forall_mods.
  unfold Legal, LegalMod. cbn [fst snd].
  split.
  - intros (HA & HI & HF & HB & HS & HT & HN). split.
    + intros m M HM.
      split; [apply (bounds_mod_met eps v dw dh m M); now apply HB|].
      split; [apply (shapes_mod_met eps v r m M); now apply HS|].
      split.
      { specialize (HA m (umod_of M, m_area M)). rewrite nth_error_combine_map, HM in HA.
        specialize (HA eq_refl). cbn [fst snd] in HA. now apply area_met in HA. }
      split; [apply (attach_mod_met eps v m M); now apply HT|].
      split; [apply (intra_mod_met eps v m M); now apply HN|].
      apply (fix_mod_met eps v nl u Hu m M HM). now apply HF.
    + intros m n M N Hmn HM HN' i j Hi Hj.
      apply inter_met. apply (HI m n (nrects (umod_of M)) (nrects (umod_of N)) Hmn); auto.
      * rewrite !nth_error_map, HM. reflexivity.
      * rewrite !nth_error_map, HN'. reflexivity.
  - intros [HMod HInter].
    split; [|split; [|split; [|split; [|split; [|split]]]]].
    + intros m [U a] Hx. rewrite nth_error_combine_map in Hx.
      destruct (nth_error nl m) as [M|] eqn:HM; [|discriminate]. inversion Hx; subst. cbn [fst snd].
      apply area_met. apply (HMod m M HM).
    + intros a b ca cb Hab Ha Hb i j Hi Hj. rewrite !nth_error_map in Ha, Hb.
      destruct (nth_error nl a) as [M|] eqn:HM; [|discriminate].
      destruct (nth_error nl b) as [N|] eqn:HN; [|discriminate].
      inversion Ha; inversion Hb; subst. apply inter_met. simpl. eapply HInter; eauto.
    + intros m M HM. apply (fix_mod_met eps v nl u Hu m M HM). apply (HMod m M HM).
    + intros m M HM. apply (bounds_mod_met eps v dw dh m M). apply (HMod m M HM).
    + intros m M HM. apply (shapes_mod_met eps v r m M). apply (HMod m M HM).
    + intros m M HM. apply (attach_mod_met eps v m M). apply (HMod m M HM).
    + intros m M HM. apply (intra_mod_met eps v m M). apply (HMod m M HM).
Qed.
