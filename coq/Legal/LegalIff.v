(* C09 - the generated equations are met exactly by the legal floorplans. *)
From Coq Require Import Reals List Bool String.
From FrameModel Require Import Num.QcTac Legal.Syntax Legal.Build Legal.Sem Legal.LegalFacts Legal.Legal.
From Coq Require Import Lia Lra Psatz.
Import ListNotations.
Open Scope R_scope.

(* ------------------------------------------------------------------ *)
(* lists                                                              *)
(* ------------------------------------------------------------------ *)
Lemma Forall_number_from {A} (P : nat * A -> Prop) l : forall k,
  Forall P (number_from k l) <-> forall i x, nth_error l i = Some x -> P ((k + i)%nat, x).
Proof.
  induction l as [|a l IH]; intro k; simpl.
  - split; [intros _ i x Hx; destruct i; discriminate | constructor].
  - rewrite Forall_cons_iff, IH. split.
    + intros [Ha Hl] i x Hx. destruct i; simpl in Hx.
      * inversion Hx; subst. now rewrite Nat.add_0_r.
      * replace (k + S i)%nat with (S k + i)%nat by lia. now apply Hl.
    + intro Hall. split.
      * specialize (Hall 0%nat a eq_refl). now rewrite Nat.add_0_r in Hall.
      * intros i x Hx. replace (S k + i)%nat with (k + S i)%nat by lia. now apply Hall.
Qed.

Lemma Forall_numbered {A} (P : nat * A -> Prop) l :
  Forall P (numbered l) <-> forall i x, nth_error l i = Some x -> P (i, x).
Proof. unfold numbered. rewrite Forall_number_from. reflexivity. Qed.

Lemma Forall_seq (Q : nat -> Prop) n : forall a,
  Forall Q (seq a n) <-> forall i, (a <= i < a + n)%nat -> Q i.
Proof.
  induction n as [|n IH]; intro a; simpl.
  - split; [intros _ i Hi; lia | constructor].
  - rewrite Forall_cons_iff, IH. split.
    + intros [Ha Hl] i Hi. destruct (Nat.eq_dec i a); [subst; assumption | apply Hl; lia].
    + intro Hall. split; [apply Hall; lia | intros i Hi; apply Hall; lia].
Qed.

Lemma Forall_map_iff {A B} (P : B -> Prop) (f : A -> B) l :
  Forall P (map f l) <-> Forall (fun x => P (f x)) l.
Proof. apply Forall_map. Qed.

Lemma In_seq_iff a n i : In i (seq a n) <-> (a <= i < a + n)%nat.
Proof. apply in_seq. Qed.

(* ------------------------------------------------------------------ *)
(* evaluation of the building blocks                                  *)
(* ------------------------------------------------------------------ *)
Lemma eval_eadd v a b : eval v (eadd a b) = eval v a + eval v b.
Proof. destruct a, b; simpl; try reflexivity. apply Qc2R_add. Qed.
Lemma eval_esub v a b : eval v (esub a b) = eval v a - eval v b.
Proof. destruct a, b; simpl; try reflexivity. apply Qc2R_sub. Qed.
Lemma eval_emul v a b : eval v (emul a b) = eval v a * eval v b.
Proof. destruct a, b; simpl; try reflexivity. apply Qc2R_mul. Qed.

Lemma nat_of_Qc_2 : nat_of_Qc (qc 2 1) = Some 2%nat.
Proof. vm_compute. reflexivity. Qed.

Lemma eval_sq v a : (forall q, a <> Cst q) -> eval v (epow a c_two) = eval v a ^ 2.
Proof.
  intro H. destruct a; try (exfalso; eapply H; reflexivity);
    unfold epow, c_two; cbn [eval]; rewrite nat_of_Qc_2; reflexivity.
Qed.

Lemma eval_hlf v : eval v hlf = 1 / 2.
Proof. unfold hlf. simpl. apply Qc2R_half. Qed.

Ltac ev := repeat first [rewrite eval_eadd | rewrite eval_esub | rewrite eval_emul | rewrite eval_hlf].

Lemma met_soft eps v g nm l c r :
  met eps v (mkEq g nm l c r false) <->
  match c with
  | LE => eval v l <= eval v r + (eps + met_tol)
  | GE => eval v l >= eval v r - (eps + met_tol)
  | EQ => near (eps + met_tol) (eval v r) (eval v l)
  end.
Proof. unfold met, near; simpl. destruct c; reflexivity. Qed.
(* ------------------------------------------------------------------ *)
(* Bounds, Shapes, Attach                                             *)
(* ------------------------------------------------------------------ *)
Lemma eval_var v k m i : eval v (Var k m i) = v k m i.
Proof. reflexivity. Qed.

Ltac vars := unfold vX, vY, vW, vH; rewrite ?eval_var.
Ltac geo := unfold InsideDie, Attached, Before, near, lft, rgt, bot, top, X, Y, W, H in *.

Lemma bounds_met eps v dw dh m i :
  Forall (met eps v) (bounds_eqs dw dh m i) <-> InsideDie v (eps + met_tol) (Qc2R dw) (Qc2R dh) m i.
Proof.
  unfold bounds_eqs. rewrite !Forall_cons_iff, !met_soft. ev. vars. unfold c_zero. cbn [eval].
  rewrite Qc2R_0. geo. split; intros; repeat match goal with H : _ /\ _ |- _ => destruct H end;
    repeat split; try apply Forall_nil; lra.
Qed.

Lemma Qc_sq_plus_one_neq0 (r : Qc) : (r * r + 1 * 1)%Qc <> 0%Qc.
Proof.
  intro E. apply (f_equal Qc2R) in E. rewrite Qc2R_add, !Qc2R_mul, Qc2R_1, Qc2R_0 in E.
  generalize dependent (Qc2R r). intros x E. nra.
Qed.

Lemma thinq_R r : Qc2R (thinq r 1) = thinR (Qc2R r) 1.
Proof.
  unfold thinq, thinR. rewrite Qc2R_div by apply Qc_sq_plus_one_neq0.
  rewrite Qc2R_add, !Qc2R_mul, Qc2R_1. reflexivity.
Qed.

Lemma Qc2R_10 : Qc2R (qc 10 1) = 10.
Proof. rewrite Qc2R_qc. lra. Qed.

Lemma shape_met eps v r m i :
  met eps v (shape_eq r m i) <-> AspectOK v (eps + met_tol) (Qc2R r) m i.
Proof.
  unfold shape_eq. rewrite met_soft. unfold thin_e, vW, vH, c_ten. cbn [emul eadd ediv eval].
  rewrite Qc2R_mul, thinq_R, Qc2R_10. unfold AspectOK, thinR, W, H. split; intro; lra.
Qed.

Lemma attach_met eps v s m i :
  Forall (met eps v) (attach_eqs s m i) <-> Attached v (eps + met_tol) s m i.
Proof.
  destruct s; unfold attach_eqs; rewrite !Forall_cons_iff, !met_soft;
    unfold lo_x, hi_x, lo_y, hi_y; ev; vars; geo;
    (split; intros; repeat match goal with H : _ /\ _ |- _ => destruct H end;
     repeat split; try apply Forall_nil; lra).
Qed.

(* ------------------------------------------------------------------ *)
(* Area                                                               *)
(* ------------------------------------------------------------------ *)
Lemma area_e_S m c : area_e m (S c) = eadd (area_e m c) (emul (vW m c) (vH m c)).
Proof. unfold area_e. rewrite seq_S, fold_left_app. reflexivity. Qed.

Lemma eval_area v m c : eval v (area_e m c) = area_of v m c.
Proof.
  induction c as [|c IH].
  - unfold area_e, area_of. simpl. apply Qc2R_0.
  - rewrite area_e_S. ev. rewrite IH. vars. reflexivity.
Qed.

Lemma area_met eps v m c a :
  met eps v (area_eq m c a) <-> AreaOK v (eps + met_tol) (Qc2R a) m c.
Proof. unfold area_eq. rewrite met_soft, eval_area. reflexivity. Qed.

(* ------------------------------------------------------------------ *)
(* Intra                                                              *)
(* ------------------------------------------------------------------ *)
Lemma intra_met eps v s m k a b :
  met eps v (intra_eq s m k a b) <-> Before v (eps + met_tol) s m a b.
Proof.
  destruct s; unfold intra_eq; rewrite met_soft; ev; vars; geo; split; intro; lra.
Qed.

Lemma intra_side_met eps v U m s :
  Forall (met eps v) (intra_side U m s) <->
  forall a b, In (a, b) (adjacent_pairs (sorted_side U s)) -> Before v (eps + met_tol) s m a b.
Proof.
  unfold intra_side. rewrite Forall_map_iff, Forall_numbered. split.
  - intros Hall a b Hin. apply In_nth_error in Hin. destruct Hin as [k Hk].
    specialize (Hall k (a, b) Hk). cbn [fst snd] in Hall. now apply intra_met in Hall.
  - intros Hall k [a b] Hk. cbn [fst snd]. apply intra_met. apply Hall. eapply nth_error_In; eauto.
Qed.

(* ------------------------------------------------------------------ *)
(* Inter                                                              *)
(* ------------------------------------------------------------------ *)
Lemma Qc2R_quarter : Qc2R (qc 1 4) = 1 / 4.
Proof. rewrite Qc2R_qc. reflexivity. Qed.
Lemma Qc2R_4 : Qc2R (qc 4 1) = 4.
Proof. rewrite Qc2R_qc. lra. Qed.

Lemma eval_t1 v m i n j : eval v (t1_e m i n j) = sep_x v m i n j.
Proof.
  unfold t1_e. ev. rewrite !eval_sq by (unfold esub, eadd, vX, vW; intros q E; discriminate).
  ev. vars. unfold c_qrt. cbn [eval]. rewrite Qc2R_quarter. unfold sep_x, X, W. field.
Qed.
Lemma eval_t2 v m i n j : eval v (t2_e m i n j) = sep_y v m i n j.
Proof.
  unfold t2_e. ev. rewrite !eval_sq by (unfold esub, eadd, vY, vH; intros q E; discriminate).
  ev. vars. unfold c_qrt. cbn [eval]. rewrite Qc2R_quarter. unfold sep_y, Y, H. field.
Qed.

Lemma t1_is_sub m i n j : exists a b, t1_e m i n j = Sub a b.
Proof. do 2 eexists. reflexivity. Qed.
Lemma t2_is_sub m i n j : exists a b, t2_e m i n j = Sub a b.
Proof. do 2 eexists. reflexivity. Qed.

Lemma eval_smax v x y tau : (exists a b, x = Sub a b) -> (exists a b, y = Sub a b) ->
  eval v (smax_e x y (Cst tau)) = smaxR (eval v x) (eval v y) (Qc2R tau).
Proof.
  intros [a [b ->]] [a' [b' ->]]. unfold smax_e, esqrt. ev. cbn [eval]. ev.
  rewrite eval_sq by (unfold esub; intros q E; discriminate). ev.
  unfold c_four. cbn [eval]. rewrite Qc2R_4. unfold smaxR. reflexivity.
Qed.

Lemma inter_met eps v tau m i n j :
  met eps v (inter_eq tau m i n j) <-> NoOverlap v (eps + met_tol) (Qc2R tau) m i n j.
Proof.
  unfold inter_eq. rewrite met_soft. rewrite eval_smax by (apply t1_is_sub || apply t2_is_sub).
  rewrite eval_t1, eval_t2. unfold c_zero. cbn [eval]. rewrite Qc2R_0.
  replace (0 - (eps + met_tol)) with (- (eps + met_tol)) by lra.
  rewrite smax_ge. reflexivity.
Qed.
