(* C09 - what netlist_to_utils' role splitting yields on a single-trunk orthogon *)
From Coq Require Import List Bool.
From FrameModel Require Import Num.QcTac Legal.Syntax Legal.Build.
Import ListNotations.

Definition loc_eqb (a b : loc) : bool :=
  match a, b with
  | LTrunk, LTrunk | LNorth, LNorth | LSouth, LSouth | LEast, LEast | LWest, LWest | LNoPoly, LNoPoly => true
  | _, _ => false
  end.
Definition is_side (l : loc) : bool :=
  match l with LNorth | LSouth | LEast | LWest => true | _ => false end.
Definition pick (l : loc) (rs : list (loc * box)) : list box :=
  map snd (filter (fun p => loc_eqb (fst p) l) rs).

(* a single-trunk orthogon as create_stog labels it: the trunk first, then branches with a side *)
Definition stog_module (M : module) : Prop :=
  exists t rest, m_rects M = (LTrunk, t) :: rest /\ Forall (fun p => is_side (fst p) = true) rest.
Definition stog_netlist (nl : list module) : Prop :=
  Forall (fun M => stog_module M /\ implb (m_fixed M) (m_hard M) = true) nl.

Lemma split_sides rs : Forall (fun p => is_side (fst p) = true) rs -> forall t d n s e w,
  split_roles rs t d n s e w =
  mkUmod t (n ++ pick LNorth rs) (s ++ pick LSouth rs) (e ++ pick LEast rs) (w ++ pick LWest rs).
Proof.
  induction 1 as [|[l r] rs Hl _ IH]; intros t d n s e w.
  - unfold pick. simpl. now rewrite !app_nil_r.
  - simpl in Hl. destruct l; try discriminate; simpl; rewrite IH; unfold pick; simpl;
      rewrite <- ?app_assoc; reflexivity.
Qed.

Lemma umod_of_stog M t rest : m_rects M = (LTrunk, t) :: rest ->
  Forall (fun p => is_side (fst p) = true) rest ->
  umod_of M = mkUmod t (pick LNorth rest) (pick LSouth rest) (pick LEast rest) (pick LWest rest).
Proof. intros E H. unfold umod_of. rewrite E. simpl. now rewrite split_sides. Qed.

Lemma stog_netlist_builds nl dw dh r : stog_netlist nl -> exists eqs, build nl dw dh r = Some eqs.
Proof.
  intro H. unfold build, netlist_to_utils.
  assert (E : forallb module_ok nl = true).
  { apply forallb_forall. intros M HM. unfold stog_netlist in H. rewrite Forall_forall in H. apply (H M HM). }
  rewrite E. eexists. reflexivity.
Qed.
