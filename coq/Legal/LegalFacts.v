(* C09 - facts about the legaliser's constraint system (see Build.v for the equation groups,
   Sem.v for the semantics). *)
From Coq Require Import Reals QArith Qreals Qcanon List Bool String.
From FrameModel Require Import Num.QcTac Legal.Syntax Legal.Build Legal.Sem.
From Coq Require Import Lia Lra Psatz.   (* after QcTac, which loads the rational-only lra *)
Import ListNotations.
Open Scope R_scope.

(* ------------------------------------------------------------------ *)
(* 1. rationals into reals                                            *)
(* ------------------------------------------------------------------ *)
Lemma Qc2R_add a b : Qc2R (a + b)%Qc = Qc2R a + Qc2R b.
Proof.
  unfold Qc2R. rewrite <- Q2R_plus. apply Qeq_eqR. apply this_plus.
Qed.
Lemma Qc2R_mul a b : Qc2R (a * b)%Qc = Qc2R a * Qc2R b.
Proof.
  unfold Qc2R. rewrite <- Q2R_mult. apply Qeq_eqR. apply this_mult.
Qed.
Lemma Qc2R_opp a : Qc2R (- a)%Qc = - Qc2R a.
Proof.
  unfold Qc2R. rewrite <- Q2R_opp. apply Qeq_eqR. apply this_opp.
Qed.
Lemma Qc2R_sub a b : Qc2R (a - b)%Qc = Qc2R a - Qc2R b.
Proof. unfold Qcminus. rewrite Qc2R_add, Qc2R_opp. lra. Qed.
Lemma Qc2R_0 : Qc2R 0%Qc = 0.
Proof. unfold Qc2R, Q2R. simpl. lra. Qed.
Lemma Qc2R_1 : Qc2R 1%Qc = 1.
Proof. unfold Qc2R, Q2R. simpl. lra. Qed.
Lemma Qc2R_eq0 a : Qc2R a = 0 -> a = 0%Qc.
Proof.
  unfold Qc2R. intro H. apply Qc_is_canon. simpl.
  apply eqR_Qeq. rewrite H. unfold Q2R. simpl. lra.
Qed.
Lemma Qc2R_inv a : a <> 0%Qc -> Qc2R (/ a)%Qc = / Qc2R a.
Proof.
  intro H. unfold Qc2R. rewrite <- Q2R_inv.
  - apply Qeq_eqR. unfold Qcinv. apply this_Q2Qc.
  - intro E. apply H. apply Qc_is_canon. simpl. exact E.
Qed.
Lemma Qc2R_div a b : b <> 0%Qc -> Qc2R (a / b)%Qc = Qc2R a / Qc2R b.
Proof. intro H. unfold Qcdiv. rewrite Qc2R_mul, Qc2R_inv by exact H. reflexivity. Qed.
Lemma Qc2R_le a b : (a <= b)%Qc <-> Qc2R a <= Qc2R b.
Proof. unfold Qcle, Qc2R. split; [apply Qle_Rle | apply Rle_Qle]. Qed.
Lemma Qc2R_lt a b : (a < b)%Qc <-> Qc2R a < Qc2R b.
Proof. unfold Qclt, Qc2R. split; [apply Qlt_Rlt | apply Rlt_Qlt]. Qed.
Lemma Qc2R_qc n d : Qc2R (qc n d) = IZR n / IZR (Zpos d).
Proof.
  unfold Qc2R, qc. rewrite (Qeq_eqR _ _ (this_Q2Qc (n # d))). unfold Q2R. simpl. reflexivity.
Qed.
Lemma Qc2R_half : Qc2R half = 1 / 2.
Proof. unfold half. change (Q2Qc (1 # 2)) with (qc 1 2). rewrite Qc2R_qc. reflexivity. Qed.

(* ------------------------------------------------------------------ *)
(* 2. thin and smax                                                   *)
(* ------------------------------------------------------------------ *)
Definition thinR (w h : R) : R := w * h / (w * w + h * h).
Definition smaxR (x y t : R) : R := 1 / 2 * (x + y + sqrt ((x - y) ^ 2 + 4 * t * t)).

Lemma div_ge_iff a b c e : 0 < b -> 0 < e -> (a / b >= c / e <-> a * e >= c * b).
Proof.
  intros Hb He. split; intro H.
  - apply Rle_ge. apply Rge_le in H.
    apply (Rmult_le_compat_r (b * e)) in H; [|nra].
    replace (c / e * (b * e)) with (c * b) in H by (field; lra).
    replace (a / b * (b * e)) with (a * e) in H by (field; lra). exact H.
  - apply Rle_ge. apply Rge_le in H.
    apply (Rmult_le_reg_r (b * e)); [nra|].
    replace (c / e * (b * e)) with (c * b) by (field; lra).
    replace (a / b * (b * e)) with (a * e) by (field; lra). exact H.
Qed.

(* the aspect-ratio test of the code: thin(w,h) >= thin(r,1) says exactly that neither side
   exceeds r times the other *)
Theorem thin_iff w h r : 0 < w -> 0 < h -> 1 <= r ->
  (thinR w h >= thinR r 1 <-> w <= r * h /\ h <= r * w).
Proof.
  intros Hw Hh Hr. unfold thinR. rewrite div_ge_iff by nra.
  split.
  - intro H. assert (E : (r * w - h) * (r * h - w) >= 0) by nra.
    split.
    + destruct (Rle_dec w (r * h)) as [|N]; [assumption|]. exfalso.
      assert (r * h - w < 0) by lra. assert (r * w - h > 0) by nra. nra.
    + destruct (Rle_dec h (r * w)) as [|N]; [assumption|]. exfalso.
      assert (r * w - h < 0) by lra. assert (r * h - w > 0) by nra. nra.
  - intros [A B]. assert (E : (r * w - h) * (r * h - w) >= 0) by nra. nra.
Qed.

(* for a limit below 1 the same test bounds the ratio by 1/r: the general form *)
Lemma thin_ge_gen w h r : 0 < w -> 0 < h -> 0 < r ->
  (thinR w h >= thinR r 1 <-> (r * w - h) * (r * h - w) >= 0).
Proof. intros Hw Hh Hr. unfold thinR. rewrite div_ge_iff by nra. split; intro; nra. Qed.

Lemma sqrt_ge_of_sq s p : 0 <= s -> p * p <= s * s -> p <= s.
Proof. intros Hs H. destruct (Rle_dec p s); [assumption|]. exfalso. nra. Qed.

(* the smoothed maximum: with slack d, smax(x,y,t) >= -d says that x or y is (almost)
   non-negative or their product is within the smoothing tolerance t^2 *)
Theorem smax_ge x y t d :
  (smaxR x y t >= - d <-> x + d >= 0 \/ y + d >= 0 \/ (x + d) * (y + d) <= t * t).
Proof.
  unfold smaxR.
  assert (D0 : 0 <= (x - y) ^ 2 + 4 * t * t).
  { simpl. pose proof (Rle_0_sqr (x - y)) as A. pose proof (Rle_0_sqr t) as B. unfold Rsqr in *. lra. }
  pose proof (sqrt_pos ((x - y) ^ 2 + 4 * t * t)) as S0.
  pose proof (sqrt_sqrt _ D0) as SS.
  set (s := sqrt ((x - y) ^ 2 + 4 * t * t)) in *.
  simpl in SS.
  split.
  - intro H.
    destruct (Rle_dec 0 (x + d)) as [|Nx]; [left; lra|].
    destruct (Rle_dec 0 (y + d)) as [|Ny]; [right; left; lra|].
    right; right. assert (P : s >= - (x + y + 2 * d)) by lra.
    assert (0 < - (x + y + 2 * d)) by lra. nra.
  - intros [Hx | [Hy | Hxy]].
    + assert (x - y <= s) by (apply sqrt_ge_of_sq; nra). lra.
    + assert (y - x <= s) by (apply sqrt_ge_of_sq; nra). lra.
    + destruct (Rle_dec 0 (x + d)) as [|Nx].
      { assert (x - y <= s) by (apply sqrt_ge_of_sq; nra). lra. }
      destruct (Rle_dec 0 (y + d)) as [|Ny].
      { assert (y - x <= s) by (apply sqrt_ge_of_sq; nra). lra. }
      assert (- (x + y + 2 * d) <= s) by (apply sqrt_ge_of_sq; nra). lra.
Qed.

Theorem smax_iff x y t :
  (smaxR x y t >= 0 <-> x >= 0 \/ y >= 0 \/ x * y <= t * t).
Proof.
  pose proof (smax_ge x y t 0) as H. replace (- 0) with 0 in H by lra.
  rewrite H. replace (x + 0) with x by lra. replace (y + 0) with y by lra. reflexivity.
Qed.
