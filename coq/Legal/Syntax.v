(* C09 - syntax of the legaliser's expression trees and equations.

   Mirrors tools/legalfloor/expression_tree.py:
     NodeType  CST VAR ADD SUB MUL DIV EXP SRT         -> [expr]
     ExpressionTree.__add__/__sub__/__mul__/__truediv__/__pow__
               fold two CST operands into one CST node,   -> [eadd esub emul ediv epow]
               otherwise build a binary node
     sqrt()    folds a CST operand (math.sqrt)            -> [esqrt]
     Cmp       LE GE EQ                                   -> [cmp]
     Equation  (lhs, cmp, rhs, name, hard)                -> [eqn] (+ the group it is filed under)

   Numbers are canonical rationals (Qc); Python floats are compared with them
   by the correspondence (exactly on dyadic inputs).  Variables are the GEKKO
   variables "x<m>i<i>", "y<m>i<i>", "w<m>i<i>", "h<m>i<i>" created by
   ModelModule._define_vars for rectangle i of module m. *)
From FrameModel Require Import Num.QcTac.
From Coq Require Import List String Bool DecimalString.
Import ListNotations.
Open Scope Qc_scope.

Inductive vkind := VX | VY | VW | VH.

Inductive expr :=
| Cst (q : Qc)
| Var (k : vkind) (m i : nat)
| Add (a b : expr)
| Sub (a b : expr)
| Mul (a b : expr)
| Div (a b : expr)
| Pow (a b : expr)
| Sqrt (a : expr).

(* the exponent of a constant power node when it is a natural number *)
Definition nat_of_Qc (q : Qc) : option nat :=
  match this q with
  | Qmake n 1%positive => if Z.leb 0 n then Some (Z.to_nat n) else None
  | _ => None
  end.

(* operator overloads: CST op CST is folded, anything else builds a node *)
Definition eadd (a b : expr) : expr :=
  match a, b with Cst x, Cst y => Cst (x + y) | _, _ => Add a b end.
Definition esub (a b : expr) : expr :=
  match a, b with Cst x, Cst y => Cst (x - y) | _, _ => Sub a b end.
Definition emul (a b : expr) : expr :=
  match a, b with Cst x, Cst y => Cst (x * y) | _, _ => Mul a b end.
Definition ediv (a b : expr) : expr :=
  match a, b with Cst x, Cst y => Cst (x / y) | _, _ => Div a b end.
(* CST ** CST is folded by the code for every float exponent; the model folds the
   natural exponents (the only ones expressible in Qc); the equation generator never
   raises a constant to a constant *)
Definition epow (a b : expr) : expr :=
  match a, b with
  | Cst x, Cst y => match nat_of_Qc y with Some n => Cst (Qcpower x n) | None => Pow a b end
  | _, _ => Pow a b
  end.
(* sqrt(CST) is folded by the code with math.sqrt (irrational in general); the generator
   only takes roots of expressions that contain variables, where a SRT node is built *)
Definition esqrt (a : expr) : expr := Sqrt a.

Inductive cmp := LE | GE | EQ.
Inductive group := GArea | GInter | GFix | GBounds | GShapes | GAttach | GIntra.

Record eqn := mkEq {
  egroup : group;
  ename : string;
  elhs : expr;
  ecmp : cmp;
  erhs : expr;
  ehard : bool
}.

(* decimal rendering of indices in equation names ("%i") *)
Definition sn (n : nat) : string := NilEmpty.string_of_uint (Nat.to_uint n).
Definition idx2 (a b : nat) : string := ("[" ++ sn a ++ "," ++ sn b ++ "]")%string.

(* ---------------- boolean comparison (used by the correspondence) ---------------- *)
Definition vkind_eqb (a b : vkind) : bool :=
  match a, b with VX, VX | VY, VY | VW, VW | VH, VH => true | _, _ => false end.
Definition cmp_eqb (a b : cmp) : bool :=
  match a, b with LE, LE | GE, GE | EQ, EQ => true | _, _ => false end.
Definition group_eqb (a b : group) : bool :=
  match a, b with
  | GArea, GArea | GInter, GInter | GFix, GFix | GBounds, GBounds
  | GShapes, GShapes | GAttach, GAttach | GIntra, GIntra => true
  | _, _ => false
  end.

(* constants equal up to [tol] relative to max(1,|q|); tol = 0 is exact equality *)
Definition cst_close (tol q f : Qc) : bool :=
  Qcleb (Qcabs (q - f)) (tol * Qcmax 1 (Qcabs q)).

Fixpoint expr_close (tol : Qc) (a b : expr) : bool :=
  match a, b with
  | Cst x, Cst y => cst_close tol x y
  | Var k m i, Var k' m' i' => vkind_eqb k k' && Nat.eqb m m' && Nat.eqb i i'
  | Add a1 a2, Add b1 b2 | Sub a1 a2, Sub b1 b2 | Mul a1 a2, Mul b1 b2
  | Div a1 a2, Div b1 b2 | Pow a1 a2, Pow b1 b2 => expr_close tol a1 b1 && expr_close tol a2 b2
  | Sqrt a1, Sqrt b1 => expr_close tol a1 b1
  | _, _ => false
  end.

Definition eqn_close (tol : Qc) (a b : eqn) : bool :=
  group_eqb (egroup a) (egroup b) && String.eqb (ename a) (ename b) &&
  expr_close tol (elhs a) (elhs b) && cmp_eqb (ecmp a) (ecmp b) &&
  expr_close tol (erhs a) (erhs b) && Bool.eqb (ehard a) (ehard b).
