(* C09 - semantics of the legaliser's equations over Coq's real numbers.

   Mirrors ExpressionTree.evaluate (get_gekko_expression_aux with the getter value_of and
   math.sqrt) and Equation.is_equation_met of tools/legalfloor/expression_tree.py:

     is_equation_met:   eps = epsilon.evaluate()          (0 when the annealed value is < 1e-6)
       LE  hard: lhs <= rhs + 1e-6          soft: lhs <= rhs + eps + 1e-6
       GE  hard: lhs >= rhs - 1e-6          soft: lhs >= rhs - eps - 1e-6
       EQ  hard: |lhs - rhs| <= 1e-6        soft: lhs >= rhs - eps - 1e-6 and lhs <= rhs + eps + 1e-6

   Python floats are read as the reals they denote; x ** c with a constant natural exponent c
   is the c-fold product (the only powers in the equations are squares); other powers are
   Rpower.  Division by zero and roots of negative numbers raise in Python and take Coq's
   conventional values here; the theorems assume positive widths and heights, under which
   neither occurs in a generated equation. *)
From Coq Require Import Reals Lra QArith Qreals Qcanon List Bool.
From FrameModel Require Import Num.QcTac Legal.Syntax.
Open Scope R_scope.

Definition Qc2R (q : Qc) : R := Q2R (this q).

Definition env := vkind -> nat -> nat -> R.

Fixpoint eval (v : env) (e : expr) : R :=
  match e with
  | Cst q => Qc2R q
  | Var k m i => v k m i
  | Add a b => eval v a + eval v b
  | Sub a b => eval v a - eval v b
  | Mul a b => eval v a * eval v b
  | Div a b => eval v a / eval v b
  | Pow a b =>
    match b with
    | Cst q => match nat_of_Qc q with
               | Some n => eval v a ^ n
               | None => Rpower (eval v a) (eval v b)
               end
    | _ => Rpower (eval v a) (eval v b)
    end
  | Sqrt a => sqrt (eval v a)
  end.

Definition met_tol : R := 1 / 1000000.

(* epsilon.evaluate(): the annealed temperature, read as 0 below 1e-6 *)
Definition eps_read (e : R) : R := if Rlt_dec e met_tol then 0 else e.

Definition tol (eps : R) (hard : bool) : R := if hard then met_tol else eps + met_tol.

Definition met (eps : R) (v : env) (q : eqn) : Prop :=
  let l := eval v (elhs q) in
  let r := eval v (erhs q) in
  let d := tol eps (ehard q) in
  match ecmp q with
  | LE => l <= r + d
  | GE => l >= r - d
  | EQ => if ehard q then Rabs (l - r) <= d else l >= r - d /\ l <= r + d
  end.
