(* C09 - a legal input configuration satisfies the generated system. *)
From Coq Require Import Reals List Bool String Sorted Permutation.
From FrameModel Require Import Num.QcTac Legal.Syntax Legal.Build Legal.Sem Legal.LegalFacts Legal.Legal Legal.LegalIff Legal.Roles.
From Coq Require Import Lia Lra Psatz.
Import ListNotations.
Open Scope R_scope.

(* ------------------------------------------------------------------ *)
(* more slack admits more                                             *)
(* ------------------------------------------------------------------ *)
Lemma near_mono d d' a z : d <= d' -> near d a z -> near d' a z.
Proof. unfold near. intros; lra. Qed.

Lemma NoOverlap_smax v d tau m i n j :
  NoOverlap v d tau m i n j <-> smaxR (sep_x v m i n j) (sep_y v m i n j) tau >= - d.
Proof. unfold NoOverlap. symmetry. apply smax_ge. Qed.

Lemma Legal_mono v d d' tau dw dh r nl : d <= d' ->
  Legal v d tau dw dh r nl -> Legal v d' tau dw dh r nl.
Proof.
  intros Hd [HM HI]. split.
  - intros m M Hm. destruct (HM m M Hm) as (A & B & C & D & E & F & G).
    unfold LegalMod. split; [|split; [|split; [|split; [|split; [|split]]]]].
    + intros i Hi. destruct (A i Hi) as (? & ? & ? & ?). unfold InsideDie. repeat split; lra.
    + intros i Hi. specialize (B i Hi). unfold AspectOK in *. lra.
    + unfold AreaOK in *. lra.
    + intros s i Hi. specialize (D s i Hi). destruct s; unfold Attached in *;
        destruct D as (N & ? & ?); (split; [eapply near_mono; eauto | split; lra]).
    + intros s a b Hab. specialize (E s a b Hab). destruct s; unfold Before in *; lra.
    + intros Hh i b Hb. destruct (F Hh i b Hb) as (P & Q & S).
      split; [eapply near_mono; eauto|]. split; [eapply near_mono; eauto|].
      intro Hi. destruct (S Hi). split; eapply near_mono; eauto.
    + intro Hf. destruct (G Hf). split; eapply near_mono; eauto.
  - intros m n M N Hmn Hm Hn i j Hi Hj. specialize (HI m n M N Hmn Hm Hn i j Hi Hj).
    rewrite NoOverlap_smax in *. lra.
Qed.

(* ------------------------------------------------------------------ *)
(* the stable sort                                                    *)
(* ------------------------------------------------------------------ *)
Section Sort.
  Variable key : nat -> Qc.
  Definition kle (a b : nat) : Prop := (key a <= key b)%Qc.

  Lemma insert_by_perm x l : Permutation (insert_by key x l) (x :: l).
  Proof.
    induction l as [|y l IH]; simpl; [reflexivity|].
    destruct (Qcltb (key y) (key x)); [|reflexivity].
    rewrite IH. apply perm_swap.
  Qed.
  Lemma sort_by_perm l : Permutation (sort_by key l) l.
  Proof. induction l as [|x l IH]; simpl; [reflexivity|]. rewrite insert_by_perm. now constructor. Qed.

  Lemma HdRel_insert y x l : HdRel kle y l -> kle y x -> HdRel kle y (insert_by key x l).
  Proof.
    intros H Hx. destruct l as [|z l]; simpl; [now constructor|].
    destruct (Qcltb (key z) (key x)); constructor; [now inversion H | assumption].
  Qed.
  Lemma insert_by_sorted x l : Sorted kle l -> Sorted kle (insert_by key x l).
  Proof.
    induction l as [|y l IH]; simpl; intro H; [repeat constructor|].
    inversion H; subst. destruct (Qcltb (key y) (key x)) eqn:E.
    - constructor; [now apply IH|]. apply HdRel_insert; [assumption|].
      apply Qcltb_true in E. unfold kle. now apply Qclt_le_weak.
    - apply Qcltb_false in E. constructor; [assumption|]. now constructor.
  Qed.
  Lemma sort_by_sorted l : Sorted kle (sort_by key l).
  Proof. induction l; simpl; [constructor | now apply insert_by_sorted]. Qed.

  Lemma adjacent_sorted l : Sorted kle l -> forall a b, In (a, b) (adjacent_pairs l) -> kle a b.
  Proof.
    induction l as [|x l IH]; simpl; [tauto|]. destruct l as [|y l]; [simpl; tauto|].
    intros H a b [E | Hin].
    - inversion E; subst. inversion H; subst. now inversion H3.
    - inversion H; subst. now apply IH.
  Qed.
  Lemma adjacent_In (l : list nat) : forall a b, In (a, b) (adjacent_pairs l) -> In a l /\ In b l.
  Proof.
    induction l as [|x l IH]; simpl; [tauto|]. destruct l as [|y l]; [simpl; tauto|].
    intros a b [E | Hin].
    - inversion E; subst. simpl. auto.
    - destruct (IH a b Hin). split; right; assumption.
  Qed.
  Lemma adjacent_neq (l : list nat) : NoDup l -> forall a b, In (a, b) (adjacent_pairs l) -> a <> b.
  Proof.
    induction l as [|x l IH]; simpl; [tauto|]. destruct l as [|y l]; [simpl; tauto|].
    intros H a b [E | Hin].
    - inversion E; subst. inversion H; subst. intro; subst. apply H2. now left.
    - inversion H; subst. now apply IH.
  Qed.

  Lemma sorted_pairs l a b : NoDup l -> In (a, b) (adjacent_pairs (sort_by key l)) ->
    In a l /\ In b l /\ a <> b /\ (key a <= key b)%Qc.
  Proof.
    intros Hnd Hin.
    destruct (adjacent_In _ _ _ Hin) as [Ha Hb].
    split; [eapply Permutation_in; [apply sort_by_perm | exact Ha]|].
    split; [eapply Permutation_in; [apply sort_by_perm | exact Hb]|].
    split.
    - eapply adjacent_neq; [|exact Hin]. eapply Permutation_NoDup; [symmetry; apply sort_by_perm | exact Hnd].
    - eapply adjacent_sorted; [apply sort_by_sorted | exact Hin].
  Qed.
End Sort.

(* ------------------------------------------------------------------ *)
(* the input configuration                                            *)
(* ------------------------------------------------------------------ *)
Definition box_of (nl : list module) (m i : nat) : option box :=
  match nth_error nl m with
  | Some M => nth_error (all_boxes (umod_of M)) i
  | None => None
  end.
Definition box_get (k : vkind) (b : box) : Qc :=
  match k with VX => bx b | VY => by_ b | VW => bw b | VH => bh b end.
Definition input_env (nl : list module) : env :=
  fun k m i => match box_of nl m i with Some b => Qc2R (box_get k b) | None => 0 end.

(* the input is a legal floorplan: stated without slack and without reference to the sort *)
Definition InputLegal (dw dh r : R) (nl : list module) : Prop :=
  let v := input_env nl in
  (forall m M, nth_error nl m = Some M ->
     let U := umod_of M in
     let c := nrects U in
     (forall i, (i < c)%nat -> 0 < W v m i /\ 0 < H v m i) /\
     (forall i, (i < c)%nat -> InsideDie v 0 dw dh m i) /\
     (forall i, (i < c)%nat -> W v m i <= r * H v m i /\ H v m i <= r * W v m i) /\
     AreaOK v 0 (Qc2R (m_area M)) m c /\
     (forall s i, In i (side_ids U s) -> Attached v 0 s m i) /\
     (forall s a b, In a (side_ids U s) -> In b (side_ids U s) -> a <> b ->
        Before v 0 s m a b \/ Before v 0 s m b a)) /\
  (forall m n M N, (m < n)%nat -> nth_error nl m = Some M -> nth_error nl n = Some N ->
     forall i j, (i < nrects (umod_of M))%nat -> (j < nrects (umod_of N))%nat ->
       sep_x v m i n j >= 0 \/ sep_y v m i n j >= 0).

(* separated in x: the centres are at least half the sum of the widths apart *)
Lemma sep_x_iff v m i n j : 0 <= W v m i + W v n j ->
  (sep_x v m i n j >= 0 <-> Rabs (X v m i - X v n j) >= (W v m i + W v n j) / 2).
Proof.
  intro Hw. unfold sep_x. simpl. unfold Rabs. destruct (Rcase_abs (X v m i - X v n j)); split; intro; nra.
Qed.
Lemma sep_y_iff v m i n j : 0 <= H v m i + H v n j ->
  (sep_y v m i n j >= 0 <-> Rabs (Y v m i - Y v n j) >= (H v m i + H v n j) / 2).
Proof.
  intro Hw. unfold sep_y. simpl. unfold Rabs. destruct (Rcase_abs (Y v m i - Y v n j)); split; intro; nra.
Qed.

Lemma side_ids_lt U s i : In i (side_ids U s) -> (0 < i < nrects U)%nat.
Proof.
  unfold side_ids, nrects, branches. rewrite in_seq, !app_length.
  destruct s; simpl; lia.
Qed.

Lemma input_key nl m M s i : nth_error nl m = Some M -> (i < nrects (umod_of M))%nat ->
  Qc2R (init_key (umod_of M) s i) =
  match s with North | South => X (input_env nl) m i | East | West => Y (input_env nl) m i end.
Proof.
  intros HM Hi. unfold init_key, X, Y, input_env, box_of. rewrite HM.
  destruct (nth_error_lt_some (all_boxes (umod_of M)) i) as [b Hb]; [rewrite <- nrects_all_boxes; lia|].
  rewrite Hb. destruct s; reflexivity.
Qed.

Theorem legal_input nl dw dh r eqs eps :
  1 <= Qc2R r -> 0 <= eps ->
  InputLegal (Qc2R dw) (Qc2R dh) (Qc2R r) nl ->
  build nl dw dh r = Some eqs ->
  Forall (met eps (input_env nl)) eqs.
Proof.
  intros Hr Heps [HMod HInter] Hb.
  apply (legal_iff nl dw dh r eqs eps (input_env nl) Hb).
  assert (Hd : 0 <= eps + met_tol) by (unfold met_tol; lra).
  apply (Legal_mono _ 0 _ _ _ _ _ _ Hd).
  split.
  - intros m M HM. destruct (HMod m M HM) as (Pos & Ins & Asp & Ar & Att & Dis).
    unfold LegalMod. split; [exact Ins|]. split.
    { intros i Hi. unfold AspectOK. destruct (Pos i Hi) as [Pw Ph].
      pose proof (proj2 (thin_iff _ _ _ Pw Ph Hr) (Asp i Hi)). lra. }
    split; [exact Ar|]. split; [exact Att|]. split.
    { intros s a b Hab.
      apply sorted_pairs in Hab; [|apply seq_NoDup].
      destruct Hab as (Ha & Hb' & Hne & Hk).
      pose proof (side_ids_lt _ _ _ Ha) as La. pose proof (side_ids_lt _ _ _ Hb') as Lb.
      apply Qc2R_le in Hk. rewrite !(input_key nl m M s) in Hk by (assumption || lia).
      destruct (Pos a ltac:(lia)) as [Wa Ha']. destruct (Pos b ltac:(lia)) as [Wb Hb''].
      destruct (Dis s a b Ha Hb' Hne) as [D | D]; [exact D|]. exfalso.
      destruct s; unfold Before, rgt, lft, top, bot in D; lra. }
    split.
    { intros Hh i b Hb'. unfold near, W, H, X, Y, input_env, box_of. rewrite HM, Hb'. cbn [box_get].
      split; [lra|]. split; [lra|]. intro Hi. simpl. rewrite !Qc2R_sub. lra. }
    { intro Hf. unfold InPlace, near, X, Y, input_env, box_of. rewrite HM. simpl. lra. }
  - intros m n M N Hmn HM HN i j Hi Hj. unfold NoOverlap.
    destruct (HInter m n M N Hmn HM HN i j Hi Hj); [left | right; left]; lra.
Qed.

(* the form of DESIGN.md, Appendix B: for every netlist of single-trunk orthogons *)
Corollary legal_iff_stog nl dw dh r eps v : stog_netlist nl ->
  exists eqs, build nl dw dh r = Some eqs /\
  (Forall (met eps v) eqs <->
   Legal v (eps + met_tol) (Qc2R (tau_of dw dh (List.length nl))) (Qc2R dw) (Qc2R dh) (Qc2R r) nl).
Proof.
  intro H. destruct (stog_netlist_builds nl dw dh r H) as [eqs E]. exists eqs. split; [exact E|].
  now apply legal_iff.
Qed.

(* the limit may be given as r or 1/r: the test is the same (so replacing thin(max_ratio, 1)
   by thin(1/max_ratio, 1) in the code changes nothing) *)
Lemma thin_ratio_inverse r : 0 < r -> thinR (1 / r) 1 = thinR r 1.
Proof. intro H. unfold thinR. field. nra. Qed.
Lemma thin_sym w h : thinR w h = thinR h w.
Proof. unfold thinR. rewrite (Rmult_comm w h), (Rplus_comm (w * w)). reflexivity. Qed.
