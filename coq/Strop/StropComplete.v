(* C15 - completeness of the Strop model for matrices of ANY size:
     strop_complete : wf_matrix M = true -> decomp M T Bs -> is_strop M = true.

   Structure of the proof:
     1. [row_interval_convex]  _row_interval of a row whose ones form one run is that run;
     2. [table_mem]            rect[row][column] of the interval table is the intersection of
                               the row intervals of rows row..column (as a set of columns);
     3. [filtered_keep]        an entry survives both prime filters when the entry to its
                               right (rows row..column+1) and the entry above it
                               (rows row-1..column) are different intervals;
     4. [trunk_by_rows]        hence a full rectangle whose rows are runs and which cannot be
                               extended by a full line on any of its four sides is in
                               _get_trunks_matrix(M); applied to M and to its transpose;
     5. [star], [grow]         a decomposition trunk T makes the grid a "star" around T (every
                               one outside T is joined to T by a straight run of ones within
                               T's extent); extending T by a full adjacent line keeps the star,
                               so a star centre without full adjacent lines exists;
     6. [valid_intro]          for such a centre the corners are empty and every histogram
                               walk counts all ones of its segment, so the cell count matches;
     7. [strop_complete]       assembles: that centre is a potential trunk with a valid instance. *)
From Coq Require Import List Bool Arith Lia.
From FrameModel Require Import Strop.Strop Strop.Spec Strop.StropBase Strop.StropSound.
Import ListNotations.

(* ====================== 1. _row_interval on a single run ====================== *)
Lemma nth_default_irrel (l : list bool) k d d' : k < length l -> nth k l d = nth k l d'.
Proof. intros H. apply nth_indep. exact H. Qed.

Lemma nth_true_lt (l : list bool) k : nth k l false = true -> k < length l.
Proof.
  intros H. destruct (le_lt_dec (length l) k) as [Q|Q]; [|exact Q].
  rewrite nth_overflow in H by exact Q. discriminate.
Qed.

Lemma index_of_first b l k : k < length l -> nth k l (negb b) = b ->
  (forall x, x < k -> nth x l b = negb b) -> index_of b l = Some k.
Proof.
  intros Hk Hb Hlt. destruct (index_of b l) as [k'|] eqn:E.
  - destruct (index_of_some _ _ _ E) as (A & B & C). f_equal.
    destruct (lt_eq_lt_dec k k') as [[Q|Q]|Q]; [|auto|].
    + exfalso. specialize (C k Q). rewrite (nth_default_irrel l k b (negb b) Hk) in C.
      rewrite Hb in C. destruct b; discriminate.
    + exfalso. specialize (Hlt k' Q). rewrite (nth_default_irrel l k' b (negb b) A) in Hlt.
      rewrite B in Hlt. destruct b; discriminate.
  - exfalso. pose proof (index_of_none _ _ E k Hk) as C.
    rewrite (nth_default_irrel l k b (negb b) Hk) in C. rewrite Hb in C. destruct b; discriminate.
Qed.

Lemma row_interval_convex R :
  (exists x, nth x R false = true) ->
  (forall x y z, x <= y <= z -> nth x R false = true -> nth z R false = true -> nth y R false = true) ->
  exists l h, row_interval R = Some (l, h) /\ l <= h /\
              forall x, nth x R false = true <-> l <= x <= h.
Proof.
  intros (x0 & Hx0) Conv. unfold row_interval, index_from. cbn [skipn].
  pose proof (nth_true_lt _ _ Hx0) as Lx0.
  destruct (index_of true R) as [ft|] eqn:E1.
  2:{ exfalso. pose proof (index_of_none _ _ E1 x0 Lx0) as C.
      rewrite (nth_default_irrel R x0 true false Lx0) in C. cbn in C. congruence. }
  cbn [option_map Nat.add].
  destruct (index_of_some _ _ _ E1) as (A1 & A2 & A3). cbn [negb] in A2, A3.
  assert (Before : forall x, x < ft -> nth x R false = false).
  { intros x Hx. rewrite <- (A3 x Hx). apply nth_default_irrel. lia. }
  destruct (index_of false (skipn (ft + 1) R)) as [k|] eqn:E2; cbn [option_map].
  - destruct (index_of_some _ _ _ E2) as (B1 & B2 & B3). cbn [negb] in B2, B3.
    rewrite skipn_length in B1.
    assert (Fk : nth (ft + 1 + k) R false = false).
    { rewrite <- nth_skipn'. rewrite <- B2. apply nth_default_irrel. rewrite skipn_length. lia. }
    destruct (index_of true (skipn (ft + 1 + k + 1) R)) as [t|] eqn:E3; cbn [option_map].
    + exfalso. destruct (index_of_some _ _ _ E3) as (C1 & C2 & _). cbn [negb] in C2.
      rewrite nth_skipn' in C2.
      assert (Q : nth (ft + 1 + k) R false = true).
      { apply (Conv ft (ft + 1 + k) (ft + 1 + k + 1 + t)); [lia|exact A2|exact C2]. }
      congruence.
    + exists ft, (ft + 1 + k - 1). split; [reflexivity|]. split; [lia|]. intros x. split.
      * intros Hx. destruct (le_lt_dec ft x) as [Q1|Q1]; [|rewrite (Before x Q1) in Hx; discriminate].
        destruct (le_lt_dec x (ft + k)) as [Q2|Q2]; [lia|]. exfalso.
        destruct (Nat.eq_dec x (ft + 1 + k)) as [->|Hne]; [congruence|].
        pose proof (nth_true_lt _ _ Hx) as Lx.
        pose proof (index_of_none _ _ E3 (x - (ft + 1 + k + 1))) as C. rewrite skipn_length in C.
        specialize (C ltac:(lia)). cbn [negb] in C.
        rewrite (nth_default_irrel _ _ true false) in C by (rewrite skipn_length; lia).
        rewrite nth_skipn' in C. replace (ft + 1 + k + 1 + (x - (ft + 1 + k + 1))) with x in C by lia.
        congruence.
      * intros Hx. destruct (Nat.eq_dec x ft) as [->|Hne]; [exact A2|].
        specialize (B3 (x - (ft + 1)) ltac:(lia)). rewrite nth_skipn' in B3.
        replace (ft + 1 + (x - (ft + 1))) with x in B3 by lia. exact B3.
  - exists ft, (length R - 1). split; [reflexivity|]. split; [lia|]. intros x. split.
    + intros Hx. pose proof (nth_true_lt _ _ Hx) as Lx.
      destruct (le_lt_dec ft x) as [Q1|Q1]; [lia|rewrite (Before x Q1) in Hx; discriminate].
    + intros Hx. destruct (Nat.eq_dec x ft) as [->|Hne]; [exact A2|].
      pose proof (index_of_none _ _ E2 (x - (ft + 1))) as B3. rewrite skipn_length in B3.
      specialize (B3 ltac:(lia)). cbn [negb] in B3. rewrite nth_skipn' in B3.
      replace (ft + 1 + (x - (ft + 1))) with x in B3 by lia. exact B3.
Qed.

(* ====================== 2. the interval table ====================== *)
Definition imem (x : nat) (iv : Interval) : Prop :=
  match iv with Some (l, h) => l <= x <= h | None => False end.
Definition iwf (iv : Interval) : Prop :=
  match iv with Some (l, h) => l <= h | None => True end.

Lemma inter_wf a b : iwf (inter a b).
Proof.
  destruct a as [[l1 h1]|], b as [[l2 h2]|]; cbn; auto.
  destruct (Nat.max l1 l2 <=? Nat.min h1 h2) eqn:E; cbn; auto. b2p. exact E.
Qed.
Lemma inter_mem x a b : imem x (inter a b) <-> imem x a /\ imem x b.
Proof.
  destruct a as [[l1 h1]|], b as [[l2 h2]|]; cbn; try tauto.
  destruct (Nat.max l1 l2 <=? Nat.min h1 h2) eqn:E; cbn; b2p; lia.
Qed.
Lemma imem_ext a b : iwf a -> iwf b -> (forall x, imem x a <-> imem x b) -> a = b.
Proof.
  destruct a as [[l1 h1]|], b as [[l2 h2]|]; cbn; intros W1 W2 H; auto.
  - pose proof (proj1 (H l1) ltac:(lia)). pose proof (proj1 (H h1) ltac:(lia)).
    pose proof (proj2 (H l2) ltac:(lia)). pose proof (proj2 (H h2) ltac:(lia)).
    f_equal. f_equal; lia.
  - exfalso. apply (H l1). lia.
  - exfalso. apply (H l2). lia.
Qed.
Lemma interval_eqb_eq a b : interval_eqb a b = true -> a = b.
Proof.
  destruct a as [[l1 h1]|], b as [[l2 h2]|]; cbn; intros H; try discriminate; auto.
  b2p. subst. reflexivity.
Qed.

(* an invariant of the triangular fill, generic in the predicate *)
Section TableInv.
  Variable P : nat -> nat -> Interval -> Prop.
  Hypothesis P_inter : forall k j i1 i2, k < j -> P (S k) j i1 -> P k (j - 1) i2 -> P k j (inter i1 i2).

  Lemma col_step_P j d : P j j d -> forall prev k, k + length prev = j ->
    (forall row, row < length prev -> P (k + row) (j - 1) (nth row prev None)) ->
    length (col_step prev d) = S (length prev) /\
    forall row, row <= length prev -> P (k + row) j (nth row (col_step prev d) None).
  Proof.
    intros Gd. induction prev as [|p prev IH]; intros k Hk Hp.
    - cbn. split; [reflexivity|]. intros row Hr. replace row with 0 by (cbn in Hr; lia).
      cbn in Hk. replace (k + 0) with j by lia. exact Gd.
    - cbn [col_step length] in *. destruct (IH (S k)) as [L G]; [lia| |].
      { intros row Hr. replace (S k + row) with (k + S row) by lia. apply (Hp (S row)). lia. }
      split; [cbn; rewrite L; reflexivity|]. intros row Hr. destruct row.
      + cbn [nth]. replace (k + 0) with k by lia. apply P_inter; [lia| |].
        * replace (hd None (col_step prev d)) with (nth 0 (col_step prev d) None)
            by (destruct (col_step prev d); reflexivity).
          replace (S k) with (S k + 0) by lia. apply G. lia.
        * replace k with (k + 0) at 1 by lia. apply (Hp 0). lia.
      + cbn [nth]. replace (k + S row) with (S k + row) by lia. apply G. lia.
  Qed.

  Lemma fill_P : forall diag prev j, length prev = j ->
    (forall row, row < j -> P row (j - 1) (nth row prev None)) ->
    (forall m, m < length diag -> P (j + m) (j + m) (nth m diag None)) ->
    forall m row, m < length diag -> row <= j + m ->
      P row (j + m) (nth row (nth m (fill prev diag) []) None).
  Proof.
    induction diag as [|d diag IH]; intros prev j Hl Hp Hd m row Hm Hr; [cbn in Hm; lia|].
    cbn [fill].
    destruct (col_step_P j d) with (prev := prev) (k := 0) as [L G].
    { replace j with (j + 0) by lia. apply (Hd 0). cbn. lia. }
    { lia. }
    { intros r Hr'. cbn. apply Hp. lia. }
    destruct m.
    - cbn [nth]. replace (j + 0) with j in * by lia. apply (G row). lia.
    - cbn [nth]. replace (j + S m) with (S j + m) by lia. apply IH.
      + rewrite <- Hl. exact L.
      + intros r Hr'. replace (S j - 1) with j by lia. apply (G r). lia.
      + intros m' Hm'. replace (S j + m') with (j + S m') by lia. apply (Hd (S m')). cbn. lia.
      + cbn in Hm. lia.
      + lia.
  Qed.

  Lemma table_P M : (forall r, r < length M -> P r r (row_interval (nth r M []))) ->
    forall row column, column < length M -> row <= column ->
    P row column (tab_get (table M) row column).
  Proof.
    intros Hd row column Hc Hr. unfold tab_get, table.
    pose proof (fill_P (map row_interval M) [] 0 eq_refl) as F. cbn [Nat.add] in F.
    apply F; [intros; lia| |rewrite map_length; assumption|assumption].
    intros m Hm. rewrite map_length in Hm.
    change None with (row_interval []). rewrite map_nth. apply Hd. exact Hm.
  Qed.
End TableInv.

Definition ri (M : BoolMatrix) (k : nat) : Interval := row_interval (nth k M []).

(* rect[row][column] = intersection of the row intervals of rows row..column *)
Definition tinv (M : BoolMatrix) (r0 r1 : nat) (iv : Interval) : Prop :=
  iwf iv /\ forall x, imem x iv <-> forall k, r0 <= k <= r1 -> imem x (ri M k).

Lemma row_interval_wf R : iwf (row_interval R).
Proof.
  destruct (row_interval R) as [[l h]|] eqn:E; cbn; auto.
  exact (proj1 (row_interval_good _ _ _ E)).
Qed.

Lemma table_mem M row column : column < length M -> row <= column ->
  tinv M row column (tab_get (table M) row column).
Proof.
  apply (table_P (tinv M)).
  - intros k j i1 i2 Hkj [W1 H1] [W2 H2]. split; [apply inter_wf|]. intros x.
    rewrite inter_mem, H1, H2. split.
    + intros [A B] r Hr. destruct (Nat.eq_dec r k) as [->|Hne]; [apply B; lia|apply A; lia].
    + intros A. split; intros r Hr; apply A; lia.
  - intros r Hr. split; [apply row_interval_wf|]. intros x. unfold ri. split.
    + intros H k Hk. replace k with r by lia. exact H.
    + intros H. apply H. lia.
Qed.

Lemma fill_length : forall diag prev, length (fill prev diag) = length diag.
Proof. induction diag as [|d diag IH]; intros prev; cbn; [reflexivity|]. rewrite IH. reflexivity. Qed.
Lemma table_length M : length (table M) = length M.
Proof. unfold table. rewrite fill_length, map_length. reflexivity. Qed.
Lemma table_out M row column : length M <= column -> tab_get (table M) row column = None.
Proof.
  intros H. unfold tab_get. rewrite (nth_overflow (table M)) by (rewrite table_length; exact H).
  destruct row; reflexivity.
Qed.

(* ====================== 3. the prime filters ====================== *)
Lemma filt_row_keep : forall c c' row v, nth row c None = Some v -> nth row c' None <> Some v ->
  nth row (filt_row c c') None = Some v.
Proof.
  induction c as [|a c IH]; intros c' row v H1 H2; [destruct row; discriminate|].
  destruct c' as [|b c']; [exact H1|]. cbn [filt_row]. destruct row; cbn [nth] in *.
  - destruct (interval_eqb a b) eqn:E; [|exact H1]. apply interval_eqb_eq in E. congruence.
  - apply IH; assumption.
Qed.

Lemma prime_rows_keep : forall cols column row v, tab_get cols row column = Some v ->
  tab_get cols row (S column) <> Some v -> tab_get (prime_rows cols) row column = Some v.
Proof.
  unfold tab_get. induction cols as [|c rest IH]; intros column row v H1 H2; [exact H1|].
  cbn [prime_rows]. destruct rest as [|c' rest']; [exact H1|].
  destruct column.
  - cbn [nth] in *. apply filt_row_keep; assumption.
  - cbn [nth] in H1, H2 |- *. apply IH; assumption.
Qed.

Lemma filt_col_keep : forall c above row v, nth row c None = Some v ->
  match row with 0 => above | S r => nth r c None end <> Some v ->
  nth row (filt_col above c) None = Some v.
Proof.
  induction c as [|a c IH]; intros above row v H1 H2; [destruct row; discriminate|].
  cbn [filt_col]. destruct row; cbn [nth] in *.
  - destruct (interval_eqb a above) eqn:E; [|exact H1]. apply interval_eqb_eq in E. congruence.
  - apply IH; [exact H1|]. destruct row; exact H2.
Qed.

Lemma prime_col_keep c row v : nth row c None = Some v ->
  (row = 0 \/ nth (row - 1) c None <> Some v) -> nth row (prime_col c) None = Some v.
Proof.
  intros H1 H2. destruct c as [|a c]; [destruct row; discriminate|]. cbn [prime_col].
  destruct row; [exact H1|]. cbn [nth] in *. apply filt_col_keep; [exact H1|].
  destruct H2 as [H2|H2]; [discriminate|]. replace (S row - 1) with row in H2 by lia.
  destruct row; exact H2.
Qed.

Lemma filtered_keep M row column v :
  tab_get (table M) row column = Some v ->
  tab_get (table M) row (S column) <> Some v ->
  (row = 0 \/ tab_get (table M) (row - 1) column <> Some v) ->
  tab_get (map prime_col (prime_rows (table M))) row column = Some v.
Proof.
  intros H1 H2 H3. unfold tab_get in H3 |- *.
  change (@nil Interval) with (prime_col []). rewrite map_nth.
  change (prime_col []) with (@nil Interval).
  apply prime_col_keep.
  - apply (prime_rows_keep (table M) column row v H1 H2).
  - destruct H3 as [H3|H3]; [left; exact H3|right].
    intros Q. destruct (prime_rows_sub (table M) column (row - 1)) as [E|E].
    + pose proof (eq_trans (eq_sym E) Q) as X. discriminate.
    + exact (H3 (eq_trans (eq_sym E) Q)).
Qed.

Lemma collect_intro n cols row column l h : row <= column -> column < n ->
  tab_get cols row column = Some (l, h) -> In (mkSR row column l h) (collect n cols).
Proof.
  intros H1 H2 H3. unfold collect. apply in_flat_map. exists row. split; [apply in_seq; lia|].
  apply in_flat_map. exists column. split; [apply in_seq; lia|]. rewrite H3. left; reflexivity.
Qed.

(* ====================== 4. sufficient condition for a candidate trunk ====================== *)
Lemma ri_cell M k x : imem x (ri M k) -> cell M k x = true.
Proof.
  unfold ri, cell. destruct (row_interval (nth k M [])) as [[l h]|] eqn:E; cbn; [|tauto].
  intros H. exact (proj2 (row_interval_good _ _ _ E) x H).
Qed.

Definition rowconvex (M : BoolMatrix) (k : nat) : Prop :=
  forall x y z, x <= y <= z -> cell M k x = true -> cell M k z = true -> cell M k y = true.

Lemma cell_ri M k x : rowconvex M k -> cell M k x = true -> imem x (ri M k).
Proof.
  intros Cv H. destruct (row_interval_convex (nth k M [])) as (l & h & E & _ & Hm).
  - exists x. exact H.
  - exact Cv.
  - unfold ri. rewrite E. cbn. apply Hm. exact H.
Qed.

Theorem trunk_by_rows M t :
  rlo t <= rhi t -> rhi t < length M -> clo t <= chi t ->
  (forall i j, rlo t <= i <= rhi t -> clo t <= j <= chi t -> cell M i j = true) ->
  (forall k, rlo t <= k <= rhi t -> rowconvex M k) ->
  (clo t = 0 \/ exists k, rlo t <= k <= rhi t /\ cell M k (clo t - 1) = false) ->
  (exists k, rlo t <= k <= rhi t /\ cell M k (S (chi t)) = false) ->
  (rlo t = 0 \/ exists j, clo t <= j <= chi t /\ cell M (rlo t - 1) j = false) ->
  (exists j, clo t <= j <= chi t /\ cell M (S (rhi t)) j = false) ->
  In t (get_trunks_matrix M).
Proof.
  destruct t as [r1 r2 c1 c2]. cbn [rlo rhi clo chi].
  intros Hr Hn Hc Full Cv West (ke & Hke & East) North (js & Hjs & South).
  unfold get_trunks_matrix. apply collect_intro; [exact Hr|exact Hn|].
  (* the unfiltered entry *)
  assert (E0 : tab_get (table M) r1 r2 = Some (c1, c2)).
  { destruct (table_mem M r1 r2 Hn Hr) as [W Hm].
    apply imem_ext; [exact W|cbn; exact Hc|]. intros x. rewrite Hm. cbn [imem]. split.
    - intros A.
      assert (B : forall k, r1 <= k <= r2 -> cell M k x = true) by (intros k Hk; apply ri_cell, A, Hk).
      destruct (le_lt_dec c1 x) as [Q1|Q1]; [destruct (le_lt_dec x c2) as [Q2|Q2]; [lia|]|]; exfalso.
      + assert (X : cell M ke (S c2) = true).
        { apply (Cv ke Hke c2 (S c2) x); [lia|apply Full; lia|apply B; exact Hke]. }
        congruence.
      + destruct West as [->|(kw & Hkw & West)]; [lia|].
        assert (X : cell M kw (c1 - 1) = true).
        { apply (Cv kw Hkw x (c1 - 1) c1); [lia|apply B; exact Hkw|apply Full; lia]. }
        congruence.
    - intros Hx k Hk. apply cell_ri; [apply Cv; exact Hk|apply Full; lia]. }
  apply filtered_keep; [exact E0| |].
  - (* the entry to the right: rows r1 .. r2+1 *)
    destruct (le_lt_dec (length M) (S r2)) as [Q|Q]; [rewrite table_out by exact Q; discriminate|].
    intros E. destruct (table_mem M r1 (S r2) Q ltac:(lia)) as [_ Hm]. rewrite E in Hm.
    assert (X : cell M (S r2) js = true).
    { apply ri_cell. apply (proj1 (Hm js)); [cbn; lia|lia]. }
    congruence.
  - (* the entry above: rows r1-1 .. r2 *)
    destruct North as [->|(jn & Hjn & North)]; [left; reflexivity|].
    destruct (Nat.eq_dec r1 0) as [->|Hne]; [left; reflexivity|right].
    intros E. destruct (table_mem M (r1 - 1) r2 Hn ltac:(lia)) as [_ Hm]. rewrite E in Hm.
    assert (X : cell M (r1 - 1) jn = true).
    { apply ri_cell. apply (proj1 (Hm jn)); [cbn; lia|lia]. }
    congruence.
Qed.

(* ====================== 5. stars and their maximal centres ====================== *)
Lemma forallb_false_ex {A} (p : A -> bool) l : forallb p l = false -> exists x, In x l /\ p x = false.
Proof.
  induction l as [|a l IH]; cbn; [discriminate|]. intros H. apply andb_false_iff in H.
  destruct H as [H|H]; [exists a; auto|]. destruct (IH H) as (x & Hx & Hp). exists x; auto.
Qed.

Section Star.
  Variable f : nat -> nat -> bool.
  Variables nr nc : nat.
  Hypothesis support : forall i j, f i j = true -> i < nr /\ j < nc.

  Definition sfull (t : SRect) : Prop :=
    forall i j, rlo t <= i <= rhi t -> clo t <= j <= chi t -> f i j = true.
  (* every one is in t or joined to t by a straight run of ones within t's extent *)
  Definition strips (t : SRect) : Prop := forall i j, f i j = true ->
    (rlo t <= i <= rhi t /\ clo t <= j <= chi t) \/
    (clo t <= j <= chi t /\ i < rlo t /\ forall i', i <= i' < rlo t -> f i' j = true) \/
    (clo t <= j <= chi t /\ rhi t < i /\ forall i', rhi t < i' <= i -> f i' j = true) \/
    (rlo t <= i <= rhi t /\ j < clo t /\ forall j', j <= j' < clo t -> f i j' = true) \/
    (rlo t <= i <= rhi t /\ chi t < j /\ forall j', chi t < j' <= j -> f i j' = true).
  Definition star (t : SRect) : Prop := rlo t <= rhi t /\ clo t <= chi t /\ sfull t /\ strips t.

  Definition rowsq (t : SRect) := seq (rlo t) (S (rhi t) - rlo t).
  Definition colsq (t : SRect) := seq (clo t) (S (chi t) - clo t).
  Definition westfull (t : SRect) : bool := (0 <? clo t) && forallb (fun k => f k (clo t - 1)) (rowsq t).
  Definition eastfull (t : SRect) : bool := forallb (fun k => f k (S (chi t))) (rowsq t).
  Definition northfull (t : SRect) : bool := (0 <? rlo t) && forallb (fun j => f (rlo t - 1) j) (colsq t).
  Definition southfull (t : SRect) : bool := forallb (fun j => f (S (rhi t)) j) (colsq t).

  Lemma star_in_grid t : star t -> rhi t < nr /\ chi t < nc.
  Proof. intros (A & B & F & _). apply support. apply F; lia. Qed.

  Ltac star_cases Q i j H :=
    destruct (Q i j H) as [(?&?)|[(?&?&?)|[(?&?&?)|[(?&?&?)|(?&?&?)]]]].

  Lemma grow_west t : star t -> westfull t = true -> star (mkSR (rlo t) (rhi t) (clo t - 1) (chi t)).
  Proof.
    intros (A & B & F & Sp) H. unfold westfull in H. apply andb_true_iff in H. destruct H as [H0 H].
    apply Nat.ltb_lt in H0. rewrite forallb_forall in H.
    assert (L : forall k, rlo t <= k <= rhi t -> f k (clo t - 1) = true).
    { intros k Hk. apply H. unfold rowsq. apply in_seq. lia. }
    unfold star, sfull, strips. cbn [rlo rhi clo chi]. repeat split; try lia.
    - intros i j Hi Hj. destruct (Nat.eq_dec j (clo t - 1)) as [->|Hne]; [apply L; lia|apply F; lia].
    - intros i j Hij. star_cases Sp i j Hij.
      + left. lia.
      + right; left. repeat split; auto; lia.
      + right; right; left. repeat split; auto; lia.
      + destruct (Nat.eq_dec j (clo t - 1)) as [->|Hne]; [left; lia|].
        right; right; right; left. repeat split; try lia. intros j' Hj'. auto with arith.
        match goal with X : forall j', _ -> f i j' = true |- _ => apply X; lia end.
      + right; right; right; right. repeat split; auto; lia.
  Qed.

  Lemma grow_east t : star t -> eastfull t = true -> star (mkSR (rlo t) (rhi t) (clo t) (S (chi t))).
  Proof.
    intros (A & B & F & Sp) H. unfold eastfull in H. rewrite forallb_forall in H.
    assert (L : forall k, rlo t <= k <= rhi t -> f k (S (chi t)) = true).
    { intros k Hk. apply H. unfold rowsq. apply in_seq. lia. }
    unfold star, sfull, strips. cbn [rlo rhi clo chi]. repeat split; try lia.
    - intros i j Hi Hj. destruct (Nat.eq_dec j (S (chi t))) as [->|Hne]; [apply L; lia|apply F; lia].
    - intros i j Hij. star_cases Sp i j Hij.
      + left. lia.
      + right; left. repeat split; auto; lia.
      + right; right; left. repeat split; auto; lia.
      + right; right; right; left. repeat split; auto; lia.
      + destruct (Nat.eq_dec j (S (chi t))) as [->|Hne]; [left; lia|].
        right; right; right; right. repeat split; try lia. intros j' Hj'.
        match goal with X : forall j', _ -> f i j' = true |- _ => apply X; lia end.
  Qed.

  Lemma grow_north t : star t -> northfull t = true -> star (mkSR (rlo t - 1) (rhi t) (clo t) (chi t)).
  Proof.
    intros (A & B & F & Sp) H. unfold northfull in H. apply andb_true_iff in H. destruct H as [H0 H].
    apply Nat.ltb_lt in H0. rewrite forallb_forall in H.
    assert (L : forall j, clo t <= j <= chi t -> f (rlo t - 1) j = true).
    { intros j Hj. apply H. unfold colsq. apply in_seq. lia. }
    unfold star, sfull, strips. cbn [rlo rhi clo chi]. repeat split; try lia.
    - intros i j Hi Hj. destruct (Nat.eq_dec i (rlo t - 1)) as [->|Hne]; [apply L; lia|apply F; lia].
    - intros i j Hij. star_cases Sp i j Hij.
      + left. lia.
      + destruct (Nat.eq_dec i (rlo t - 1)) as [->|Hne]; [left; lia|].
        right; left. repeat split; try lia. intros i' Hi'.
        match goal with X : forall i', _ -> f i' j = true |- _ => apply X; lia end.
      + right; right; left. repeat split; auto; lia.
      + right; right; right; left. repeat split; auto; lia.
      + right; right; right; right. repeat split; auto; lia.
  Qed.

  Lemma grow_south t : star t -> southfull t = true -> star (mkSR (rlo t) (S (rhi t)) (clo t) (chi t)).
  Proof.
    intros (A & B & F & Sp) H. unfold southfull in H. rewrite forallb_forall in H.
    assert (L : forall j, clo t <= j <= chi t -> f (S (rhi t)) j = true).
    { intros j Hj. apply H. unfold colsq. apply in_seq. lia. }
    unfold star, sfull, strips. cbn [rlo rhi clo chi]. repeat split; try lia.
    - intros i j Hi Hj. destruct (Nat.eq_dec i (S (rhi t))) as [->|Hne]; [apply L; lia|apply F; lia].
    - intros i j Hij. star_cases Sp i j Hij.
      + left. lia.
      + right; left. repeat split; auto; lia.
      + destruct (Nat.eq_dec i (S (rhi t))) as [->|Hne]; [left; lia|].
        right; right; left. repeat split; try lia. intros i' Hi'.
        match goal with X : forall i', _ -> f i' j = true |- _ => apply X; lia end.
      + right; right; right; left. repeat split; auto; lia.
      + right; right; right; right. repeat split; auto; lia.
  Qed.

  Definition closed (t : SRect) : Prop :=
    westfull t = false /\ eastfull t = false /\ northfull t = false /\ southfull t = false.

  Lemma grow : forall n t, star t -> rlo t + clo t + (nr - rhi t) + (nc - chi t) <= n ->
    exists t', star t' /\ closed t'.
  Proof.
    induction n as [|n IH]; intros t St Hm.
    - exfalso. pose proof (star_in_grid t St). lia.
    - pose proof (star_in_grid t St) as [G1 G2].
      destruct (westfull t) eqn:Ew.
      { apply (IH _ (grow_west t St Ew)). unfold westfull in Ew. apply andb_true_iff in Ew.
        destruct Ew as [Ew _]. apply Nat.ltb_lt in Ew. cbn [rlo rhi clo chi]. lia. }
      destruct (eastfull t) eqn:Ee.
      { apply (IH _ (grow_east t St Ee)). cbn [rlo rhi clo chi]. lia. }
      destruct (northfull t) eqn:En.
      { apply (IH _ (grow_north t St En)). unfold northfull in En. apply andb_true_iff in En.
        destruct En as [En _]. apply Nat.ltb_lt in En. cbn [rlo rhi clo chi]. lia. }
      destruct (southfull t) eqn:Es.
      { apply (IH _ (grow_south t St Es)). cbn [rlo rhi clo chi]. lia. }
      exists t. split; [exact St|]. repeat split; assumption.
  Qed.

  (* ---- what a closed star centre looks like ---- *)
  Lemma star_rowconvex t k : star t -> rlo t <= k <= rhi t ->
    forall x y z, x <= y <= z -> f k x = true -> f k z = true -> f k y = true.
  Proof.
    intros (A & B & F & Sp) Hk x y z Hxyz Hx Hz.
    destruct (le_lt_dec (clo t) y) as [Q1|Q1]; [destruct (le_lt_dec y (chi t)) as [Q2|Q2]|].
    - apply F; lia.
    - star_cases Sp k z Hz; try lia.
      match goal with X : forall j', _ -> f k j' = true |- _ => apply X; lia end.
    - star_cases Sp k x Hx; try lia.
      match goal with X : forall j', _ -> f k j' = true |- _ => apply X; lia end.
  Qed.
  Lemma star_colconvex t k : star t -> clo t <= k <= chi t ->
    forall x y z, x <= y <= z -> f x k = true -> f z k = true -> f y k = true.
  Proof.
    intros (A & B & F & Sp) Hk x y z Hxyz Hx Hz.
    destruct (le_lt_dec (rlo t) y) as [Q1|Q1]; [destruct (le_lt_dec y (rhi t)) as [Q2|Q2]|].
    - apply F; lia.
    - star_cases Sp z k Hz; try lia.
      match goal with X : forall i', _ -> f i' k = true |- _ => apply X; lia end.
    - star_cases Sp x k Hx; try lia.
      match goal with X : forall i', _ -> f i' k = true |- _ => apply X; lia end.
  Qed.

  Lemma star_corner t i j : star t -> (i < rlo t \/ rhi t < i) -> (j < clo t \/ chi t < j) -> f i j = false.
  Proof.
    intros (A & B & F & Sp) Hi Hj. destruct (f i j) eqn:E; [|reflexivity]. exfalso.
    star_cases Sp i j E; lia.
  Qed.

  Lemma closed_west t : westfull t = false ->
    clo t = 0 \/ exists k, rlo t <= k <= rhi t /\ f k (clo t - 1) = false.
  Proof.
    unfold westfull. intros H. apply andb_false_iff in H. destruct H as [H|H].
    - left. apply Nat.ltb_ge in H. lia.
    - right. destruct (forallb_false_ex _ _ H) as (k & Hk & Hf). exists k. unfold rowsq in Hk.
      apply in_seq in Hk. split; [lia|exact Hf].
  Qed.
  Lemma closed_east t : eastfull t = false -> exists k, rlo t <= k <= rhi t /\ f k (S (chi t)) = false.
  Proof.
    unfold eastfull. intros H. destruct (forallb_false_ex _ _ H) as (k & Hk & Hf). exists k.
    unfold rowsq in Hk. apply in_seq in Hk. split; [lia|exact Hf].
  Qed.
  Lemma closed_north t : northfull t = false ->
    rlo t = 0 \/ exists j, clo t <= j <= chi t /\ f (rlo t - 1) j = false.
  Proof.
    unfold northfull. intros H. apply andb_false_iff in H. destruct H as [H|H].
    - left. apply Nat.ltb_ge in H. lia.
    - right. destruct (forallb_false_ex _ _ H) as (k & Hk & Hf). exists k. unfold colsq in Hk.
      apply in_seq in Hk. split; [lia|exact Hf].
  Qed.
  Lemma closed_south t : southfull t = false -> exists j, clo t <= j <= chi t /\ f (S (rhi t)) j = false.
  Proof.
    unfold southfull. intros H. destruct (forallb_false_ex _ _ H) as (k & Hk & Hf). exists k.
    unfold colsq in Hk. apply in_seq in Hk. split; [lia|exact Hf].
  Qed.
End Star.

(* ====================== 6. matrices: support, transpose, validity ====================== *)
Lemma cell_support M i j : wf_matrix M = true -> cell M i j = true -> i < nrows M /\ j < ncols M.
Proof.
  intros W H. unfold cell in H.
  assert (Hi : i < nrows M).
  { destruct (le_lt_dec (nrows M) i) as [Q|Q]; [|exact Q]. unfold nrows in Q.
    rewrite (nth_overflow M) in H by exact Q. destruct j; discriminate. }
  split; [exact Hi|]. rewrite <- (wf_rows M W i Hi). apply nth_true_lt. exact H.
Qed.

Lemma nth_map_seq' {A} (F : nat -> A) n j d : j < n -> nth j (map F (seq 0 n)) d = F j.
Proof.
  intros H. rewrite (nth_indep _ d (F 0)) by (rewrite map_length, seq_length; exact H).
  rewrite map_nth. rewrite seq_nth by exact H. reflexivity.
Qed.

Lemma transpose_length M : length (transpose M) = ncols M.
Proof. unfold transpose. rewrite map_length, seq_length. reflexivity. Qed.

Lemma cell_transpose M i j : wf_matrix M = true -> cell (transpose M) j i = cell M i j.
Proof.
  intros W. destruct (le_lt_dec (ncols M) j) as [Q|Q].
  - unfold cell at 1. rewrite (nth_overflow (transpose M)) by (rewrite transpose_length; exact Q).
    destruct (cell M i j) eqn:E; [|destruct i; reflexivity].
    destruct (cell_support M i j W E). lia.
  - unfold cell at 1. unfold transpose. rewrite nth_map_seq' by exact Q. apply nth_column.
Qed.

Lemma prefix_run l :
  (forall x y, y <= x -> nth x l false = true -> nth y l false = true) -> run_len l = count_true l.
Proof.
  induction l as [|b l IH]; intros H; [reflexivity|]. rewrite count_true_cons. destruct b.
  - cbn [run_len b2n]. rewrite IH; [lia|]. intros x y Hxy Hx. apply (H (S x) (S y)); [lia|exact Hx].
  - cbn [run_len b2n].
    assert (Z : forall x, nth x l false = false).
    { intros x. destruct (nth x l false) eqn:E; [|reflexivity].
      specialize (H (S x) 0 ltac:(lia) E). discriminate. }
    clear - Z. induction l as [|b l IH]; [reflexivity|]. rewrite count_true_cons.
    pose proof (Z 0) as Z0. cbn in Z0. subst b. cbn [b2n]. apply IH. intros x. exact (Z (S x)).
Qed.

(* converse of [counting]: when every walked segment consists of its leading run only,
   the cell-count test succeeds *)
Lemma valid_intro M t : wf_matrix M = true -> trunk_full M t -> empty_corners M t = true ->
  (forall j, clo t <= j <= chi t -> run_len (segN M t j) = count_true (segN M t j)) ->
  (forall j, clo t <= j <= chi t -> run_len (segS M t j) = count_true (segS M t j)) ->
  (forall i, rlo t <= i <= rhi t -> run_len (segW M t i) = count_true (segW M t i)) ->
  (forall i, rlo t <= i <= rhi t -> run_len (segE M t i) = count_true (segE M t i)) ->
  valid M t = true.
Proof.
  intros W [(T1 & T2 & T3 & T4) TF] EC RN RS RW RE.
  unfold valid. apply Nat.eqb_eq. rewrite (num_cells_blk M W).
  rewrite (seq_split3 (nrows M) (rlo t) (rhi t) T1 T2).
  rewrite !blk_app_r.
  rewrite (seq_split3 (ncols M) (clo t) (chi t) T3 T4).
  rewrite !blk_app_c.
  unfold empty_corners in EC. apply negb_true_iff in EC.
  apply orb_false_iff in EC. destruct EC as [EC E4].
  apply orb_false_iff in EC. destruct EC as [EC E3].
  apply orb_false_iff in EC. destruct EC as [E1 E2].
  rewrite (blk_zero M _ _ (any_cell_false M _ _ _ _ E1)).
  rewrite (blk_zero M _ _ (any_cell_false M _ _ _ _ E2)).
  rewrite (blk_zero M _ _ (any_cell_false M _ _ _ _ E3)).
  rewrite (blk_zero M _ _ (any_cell_false M _ _ _ _ E4)).
  rewrite (blk_full M (seq (rlo t) (S (rhi t) - rlo t)) (seq (clo t) (S (chi t) - clo t))).
  2:{ intros i j Hi Hj. apply in_seq in Hi. apply in_seq in Hj. apply TF; lia. }
  rewrite !seq_length.
  unfold total, area.
  assert (BN : blk M (seq 0 (rlo t)) (seq (clo t) (S (chi t) - clo t)) =
               sumf (fun j => count_true (segN M t j)) (seq (clo t) (S (chi t) - clo t))).
  { rewrite blk_swap. apply sumf_ext. intros j _. unfold segN. rewrite count_true_rev.
    pose proof (count_seq (column M j) 0 (rlo t)) as Q. cbn [skipn] in Q. rewrite <- Q. apply sumf_ext. intros i _. unfold g.
    rewrite nth_column. reflexivity. }
  assert (BS : blk M (seq (S (rhi t)) (nrows M - S (rhi t))) (seq (clo t) (S (chi t) - clo t)) =
               sumf (fun j => count_true (segS M t j)) (seq (clo t) (S (chi t) - clo t))).
  { rewrite blk_swap. apply sumf_ext. intros j _. unfold segS.
    rewrite <- (firstn_all (skipn (S (rhi t)) (column M j))), skipn_length, length_column.
    rewrite <- (count_seq (column M j) (S (rhi t)) (nrows M - S (rhi t))). apply sumf_ext. intros i _.
    unfold g. rewrite nth_column. reflexivity. }
  assert (BW : blk M (seq (rlo t) (S (rhi t) - rlo t)) (seq 0 (clo t)) =
               sumf (fun i => count_true (segW M t i)) (seq (rlo t) (S (rhi t) - rlo t))).
  { unfold blk. apply sumf_ext. intros i _. unfold segW. rewrite count_true_rev.
    pose proof (count_seq (nth i M []) 0 (clo t)) as Q. cbn [skipn] in Q. rewrite <- Q. reflexivity. }
  assert (BE : blk M (seq (rlo t) (S (rhi t) - rlo t)) (seq (S (chi t)) (ncols M - S (chi t))) =
               sumf (fun i => count_true (segE M t i)) (seq (rlo t) (S (rhi t) - rlo t))).
  { unfold blk. apply sumf_ext. intros i Hi. apply in_seq in Hi. unfold segE.
    rewrite <- (firstn_all (skipn (S (chi t)) (nth i M []))), skipn_length.
    rewrite (wf_rows M W i) by lia.
    rewrite <- (count_seq (nth i M []) (S (chi t)) (ncols M - S (chi t))). reflexivity. }
  rewrite BN, BS, BW, BE. clear BN BS BW BE.
  change (sum (h_north M t)) with (sumf (fun j => run_len (segN M t j)) (seq (clo t) (S (chi t) - clo t))).
  change (sum (h_south M t)) with (sumf (fun j => run_len (segS M t j)) (seq (clo t) (S (chi t) - clo t))).
  change (sum (h_west M t)) with (sumf (fun i => run_len (segW M t i)) (seq (rlo t) (S (rhi t) - rlo t))).
  change (sum (h_east M t)) with (sumf (fun i => run_len (segE M t i)) (seq (rlo t) (S (rhi t) - rlo t))).
  rewrite (sumf_ext (fun j => run_len (segN M t j)) (fun j => count_true (segN M t j)))
    by (intros j Hj; apply in_seq in Hj; apply RN; lia).
  rewrite (sumf_ext (fun j => run_len (segS M t j)) (fun j => count_true (segS M t j)))
    by (intros j Hj; apply in_seq in Hj; apply RS; lia).
  rewrite (sumf_ext (fun i => run_len (segW M t i)) (fun i => count_true (segW M t i)))
    by (intros j Hj; apply in_seq in Hj; apply RW; lia).
  rewrite (sumf_ext (fun i => run_len (segE M t i)) (fun i => count_true (segE M t i)))
    by (intros j Hj; apply in_seq in Hj; apply RE; lia).
  lia.
Qed.

(* the four walked segments, position by position *)
Lemma segN_nth M t j x : rlo t <= nrows M ->
  nth x (segN M t j) false = if x <? rlo t then cell M (rlo t - S x) j else false.
Proof.
  intros H. unfold segN. destruct (x <? rlo t) eqn:E; b2p.
  - rewrite nth_rev_firstn by (rewrite ?length_column; lia). apply nth_column.
  - apply nth_overflow. rewrite rev_length, firstn_length, length_column. lia.
Qed.
Lemma segS_nth M t j x : nth x (segS M t j) false = cell M (S (rhi t) + x) j.
Proof. unfold segS. rewrite nth_skipn'. apply nth_column. Qed.
Lemma segW_nth M t i x : clo t <= length (nth i M []) ->
  nth x (segW M t i) false = if x <? clo t then cell M i (clo t - S x) else false.
Proof.
  intros H. unfold segW. destruct (x <? clo t) eqn:E; b2p.
  - rewrite nth_rev_firstn by lia. reflexivity.
  - apply nth_overflow. rewrite rev_length, firstn_length. lia.
Qed.
Lemma segE_nth M t i x : nth x (segE M t i) false = cell M i (S (chi t) + x).
Proof. unfold segE. rewrite nth_skipn'. reflexivity. Qed.

Lemma any_cell_intro M r0 rn c0 cn :
  (forall i j, In i (seq r0 rn) -> In j (seq c0 cn) -> cell M i j = false) ->
  any_cell M r0 rn c0 cn = false.
Proof.
  intros H. unfold any_cell. destruct (existsb _ (seq r0 rn)) eqn:E; [|reflexivity].
  apply existsb_exists in E. destruct E as (i & Hi & E). apply existsb_exists in E.
  destruct E as (j & Hj & E). rewrite (H i j Hi Hj) in E. discriminate.
Qed.

Lemma srect_eqb_refl t : srect_eqb t t = true.
Proof. unfold srect_eqb. rewrite !Nat.eqb_refl. reflexivity. Qed.

Ltac star_cases' Q i j H :=
  destruct (Q i j H) as [(?&?)|[(?&?&?)|[(?&?&?)|[(?&?&?)|(?&?&?)]]]].

(* ====================== 7. a closed star centre is offered ====================== *)
Section Closed.
  Variable M : BoolMatrix.
  Variable t : SRect.
  Hypothesis W : wf_matrix M = true.
  Hypothesis St : star (cell M) t.
  Hypothesis Cl : closed (cell M) t.

  Let sup := fun i j => cell_support M i j W.

  Lemma closed_trunk_full : trunk_full M t.
  Proof.
    destruct (star_in_grid (cell M) (nrows M) (ncols M) sup t St) as [G1 G2].
    destruct St as (A & B & F & _). split; [unfold rect_ok; lia|exact F].
  Qed.

  Lemma closed_in_rows : In t (get_trunks_matrix M).
  Proof.
    destruct closed_trunk_full as [(T1 & T2 & T3 & T4) TF].
    destruct Cl as (Cw & Ce & Cn & Cs).
    apply trunk_by_rows; auto.
    - intros k Hk. exact (star_rowconvex (cell M) t k St Hk).
    - exact (closed_west (cell M) t Cw).
    - exact (closed_east (cell M) t Ce).
    - exact (closed_north (cell M) t Cn).
    - exact (closed_south (cell M) t Cs).
  Qed.

  Lemma closed_in_cols : In (swap_rect t) (get_trunks_matrix (transpose M)).
  Proof.
    destruct closed_trunk_full as [(T1 & T2 & T3 & T4) TF].
    destruct Cl as (Cw & Ce & Cn & Cs).
    apply trunk_by_rows; cbn [swap_rect rlo rhi clo chi]; auto.
    - rewrite transpose_length. exact T4.
    - intros i j Hi Hj. rewrite cell_transpose by exact W. apply TF; assumption.
    - intros k Hk x y z Hxyz. rewrite !cell_transpose by exact W.
      exact (star_colconvex (cell M) t k St Hk x y z Hxyz).
    - destruct (closed_north (cell M) t Cn) as [Q|(j & Hj & Q)]; [left; exact Q|right].
      exists j. rewrite cell_transpose by exact W. auto.
    - destruct (closed_south (cell M) t Cs) as (j & Hj & Q).
      exists j. rewrite cell_transpose by exact W. auto.
    - destruct (closed_west (cell M) t Cw) as [Q|(j & Hj & Q)]; [left; exact Q|right].
      exists j. rewrite cell_transpose by exact W. auto.
    - destruct (closed_east (cell M) t Ce) as (j & Hj & Q).
      exists j. rewrite cell_transpose by exact W. auto.
  Qed.

  Lemma closed_corners : empty_corners M t = true.
  Proof.
    unfold empty_corners. apply negb_true_iff.
    rewrite !orb_false_iff. repeat split; apply any_cell_intro; intros i j Hi Hj;
      apply in_seq in Hi; apply in_seq in Hj;
      apply (star_corner (cell M) t i j St); lia.
  Qed.

  Lemma closed_potential : In t (potential_trunks M).
  Proof.
    unfold potential_trunks. apply filter_In. split; [exact closed_in_rows|].
    apply andb_true_iff. split; [|exact closed_corners].
    apply existsb_exists. exists (swap_rect (swap_rect t)). split.
    - apply in_map. exact closed_in_cols.
    - destruct t; cbn. apply srect_eqb_refl.
  Qed.

  Lemma closed_valid : valid M t = true.
  Proof.
    pose proof closed_trunk_full as TFull. destruct TFull as [(T1 & T2 & T3 & T4) TF].
    destruct St as (A & B & F & Sp).
    apply valid_intro; [exact W|exact closed_trunk_full|exact closed_corners| | | |].
    - intros j Hj. apply prefix_run. intros x y Hxy. rewrite !segN_nth by lia.
      destruct (x <? rlo t) eqn:E; [|discriminate]. b2p.
      replace (y <? rlo t) with true by (symmetry; apply Nat.ltb_lt; lia).
      intros Hx. star_cases' Sp (rlo t - S x) j Hx; try lia.
      match goal with X : forall i', _ -> cell M i' j = true |- _ => apply X; lia end.
    - intros j Hj. apply prefix_run. intros x y Hxy. rewrite !segS_nth.
      intros Hx. star_cases' Sp (S (rhi t) + x) j Hx; try lia.
      match goal with X : forall i', _ -> cell M i' j = true |- _ => apply X; lia end.
    - intros i Hi. apply prefix_run. intros x y Hxy.
      rewrite !segW_nth by (rewrite (wf_rows M W i) by lia; lia).
      destruct (x <? clo t) eqn:E; [|discriminate]. b2p.
      replace (y <? clo t) with true by (symmetry; apply Nat.ltb_lt; lia).
      intros Hx. star_cases' Sp i (clo t - S x) Hx; try lia.
      match goal with X : forall j', _ -> cell M i j' = true |- _ => apply X; lia end.
    - intros i Hi. apply prefix_run. intros x y Hxy. rewrite !segE_nth.
      intros Hx. star_cases' Sp i (S (chi t) + x) Hx; try lia.
      match goal with X : forall j', _ -> cell M i j' = true |- _ => apply X; lia end.
  Qed.

  Lemma closed_offered : In (build_instance M t) (instances M).
  Proof.
    unfold instances. apply in_flat_map. exists t. split; [exact closed_potential|].
    unfold mk_instance. rewrite closed_valid. left; reflexivity.
  Qed.
End Closed.

(* ---- from the brute-force test / a decomposition to a star ---- *)
Lemma allb_forall {A} (p : A -> bool) l : allb p l = true -> forall x, In x l -> p x = true.
Proof. rewrite allb_forallb. apply forallb_forall. Qed.

Lemma cellwise_star M T : wf_matrix M = true -> rect_ok (nrows M) (ncols M) T ->
  cellwise_ok M T = true -> star (cell M) T.
Proof.
  intros W (T1 & T2 & T3 & T4) H. unfold cellwise_ok in H.
  assert (E : forall i j, i < nrows M -> j < ncols M ->
            (if in_rectb T i j then cell M i j
             else if cell M i j then strip_ok M T i j else true) = true).
  { intros i j Hi Hj. pose proof (allb_forall _ _ H i ltac:(apply in_seq; lia)) as H1. cbv beta in H1.
    exact (allb_forall _ _ H1 j ltac:(apply in_seq; lia)). }
  clear H. unfold star. split; [exact T1|]. split; [exact T3|]. split.
  - intros i j Hi Hj. specialize (E i j ltac:(lia) ltac:(lia)).
    replace (in_rectb T i j) with true in E; [exact E|]. symmetry. apply in_rectb_iff. split; assumption.
  - intros i j Hij. destruct (cell_support M i j W Hij) as [Hi Hj].
    specialize (E i j Hi Hj). destruct (in_rectb T i j) eqn:ET.
    { left. apply in_rectb_iff in ET. exact ET. }
    right. rewrite Hij in E. unfold strip_ok in E.
    destruct ((clo T <=? j) && (j <=? chi T)) eqn:EC.
    + b2p. destruct (i <? rlo T) eqn:E1; b2p.
      * left. split; [lia|]. split; [lia|]. intros i' Hi'.
        apply (allb_forall _ _ E i'). apply in_seq. lia.
      * destruct (rhi T <? i) eqn:E2; [|discriminate]. b2p.
        right; left. split; [lia|]. split; [lia|]. intros i' Hi'.
        apply (allb_forall _ _ E i'). apply in_seq. lia.
    + destruct ((rlo T <=? i) && (i <=? rhi T)) eqn:ER; [|discriminate]. b2p.
      destruct (j <? clo T) eqn:E1; b2p.
      * right; right; left. split; [lia|]. split; [lia|]. intros j' Hj'.
        apply (allb_forall _ _ E j'). apply in_seq. lia.
      * destruct (chi T <? j) eqn:E2; [|discriminate]. b2p.
        right; right; right. split; [lia|]. split; [lia|]. intros j' Hj'.
        apply (allb_forall _ _ E j'). apply in_seq. lia.
Qed.

(* ====================== completeness, any size ====================== *)
Theorem strop_complete_star : forall M T, wf_matrix M = true -> star (cell M) T ->
  exists t, In (build_instance M t) (instances M).
Proof.
  intros M T W St.
  destruct (grow (cell M) (nrows M) (ncols M) (fun i j => cell_support M i j W) _ T St (le_n _))
    as (t & St' & Cl).
  exists t. apply closed_offered; assumption.
Qed.

Theorem strop_complete : forall M T Bs, wf_matrix M = true -> decomp M T Bs -> is_strop M = true.
Proof.
  intros M T Bs W D.
  destruct (strop_complete_star M T W) as (t & Ht).
  - apply cellwise_star; [exact W|exact (proj1 D)|exact (decomp_cellwise M T Bs D)].
  - unfold is_strop. destruct (instances M); [destruct Ht|reflexivity].
Qed.

Lemma all_rects_sound nr nc T : In T (all_rects nr nc) -> rect_ok nr nc T.
Proof.
  unfold all_rects. intros H. apply in_flat_map in H. destruct H as (a & Ha & H).
  apply in_flat_map in H. destruct H as (b & Hb & H).
  apply in_flat_map in H. destruct H as (c & Hc & H).
  apply in_map_iff in H. destruct H as (d & <- & Hd).
  apply in_seq in Ha. apply in_seq in Hb. apply in_seq in Hc. apply in_seq in Hd.
  unfold rect_ok. cbn. lia.
Qed.

Theorem strop_complete_has_decomp : forall M, wf_matrix M = true -> has_decomp M = true ->
  is_strop M = true.
Proof.
  intros M W H. unfold has_decomp in H. rewrite anyb_existsb in H. apply existsb_exists in H.
  destruct H as (T & HT & HC).
  destruct (strop_complete_star M T W) as (t & Ht).
  - apply cellwise_star; [exact W|exact (all_rects_sound _ _ _ HT)|exact HC].
  - unfold is_strop. destruct (instances M); [destruct Ht|reflexivity].
Qed.

(* the three readings of "a decomposition exists" coincide with is_strop, for every size *)
Theorem strop_iff : forall M, wf_matrix M = true ->
  (is_strop M = true <-> has_decomp M = true) /\
  (is_strop M = true <-> exists T Bs, decomp M T Bs).
Proof.
  intros M W.
  assert (S : is_strop M = true -> exists T Bs, decomp M T Bs).
  { intros H. unfold is_strop in H. destruct (instances M) as [|inst l] eqn:E; [discriminate|].
    exists (trunk inst), (branches inst). apply strop_sound; [exact W|]. rewrite E. left; reflexivity. }
  split; split.
  - intros H. destruct (S H) as (T & Bs & D). exact (decomp_has_decomp M T Bs D).
  - apply strop_complete_has_decomp. exact W.
  - exact S.
  - intros (T & Bs & D). exact (strop_complete M T Bs W D).
Qed.

(* in terms of the shape of the matrix (the form of the bounded theorem, without its bound) *)
Lemma shape_wf M R C : 1 <= R -> 1 <= C -> shape M R C -> wf_matrix M = true.
Proof.
  intros HR HC [HL HF]. destruct M as [|row M]; [cbn in HL; lia|].
  assert (Hc : ncols (row :: M) = C) by (inversion HF; subst; reflexivity).
  unfold wf_matrix. rewrite Hc. apply andb_true_iff. split.
  - apply andb_true_iff. split; apply Nat.ltb_lt; [cbn; lia|lia].
  - apply forallb_forall. intros r Hr. rewrite Forall_forall in HF. apply Nat.eqb_eq. apply HF. exact Hr.
Qed.

Theorem strop_complete_shape : forall R C M, 1 <= R -> 1 <= C -> shape M R C ->
  (is_strop M = true <-> has_decomp M = true) /\
  (is_strop M = true <-> exists T Bs, decomp M T Bs) /\
  (forall inst, In inst (instances M) -> decomp M (trunk inst) (branches inst)).
Proof.
  intros R C M HR HC HS. pose proof (shape_wf M R C HR HC HS) as W.
  destruct (strop_iff M W) as [A B]. split; [exact A|]. split; [exact B|].
  intros inst Hin. apply strop_sound; assumption.
Qed.

(* non-vacuity: a 5 x 6 matrix (30 cells, beyond the exhaustive sweep) whose decomposition
   trunk below is NOT a candidate of the code (it can be widened to columns 1..4 and
   heightened to rows 0..3), and the trunks of the instances the model offers instead *)
Definition big_example : BoolMatrix :=
  let T := true in let F := false in
  [[F;F;T;T;F;F]; [F;T;T;T;T;F]; [T;T;T;T;T;T]; [F;T;T;T;T;F]; [F;F;F;T;F;F]].
Example strop_complete_ex :
  wf_matrix big_example = true /\
  decomp_b big_example (mkSR 1 3 2 3) [mkSR 0 0 2 3; mkSR 4 4 3 3; mkSR 1 1 1 1; mkSR 2 2 0 1;
                                       mkSR 3 3 1 1; mkSR 1 1 4 4; mkSR 2 2 4 5; mkSR 3 3 4 4] = true /\
  map trunk (instances big_example) = [mkSR 0 3 2 3; mkSR 0 4 3 3; mkSR 1 3 1 4; mkSR 2 2 0 5].
Proof. vm_compute. repeat split. Qed.
