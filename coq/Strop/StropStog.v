(* C15 - strop_to_stog: the rectangles of a single-trunk decomposition of a grid (trunk
   first), mapped to coordinate rectangles with the grid's column boundaries X(0) < X(1) < ...
   and row boundaries Y(0) > Y(1) > ... (row 0 on top, as strop_decomposition sorts its
   y coordinates in descending order), satisfy C06's coordinate definition [is_stog] with the
   trunk at position 0; hence the C06 model of create_stog answers true, puts a trunk first
   and gives every other rectangle a side.

   Tolerance hypotheses (explicit): every column is at least d wide and every row at least d
   high, 0 < eps, eps + eps <= d (C06's [nondegenerate]: no rectangle thinner than the
   tolerance band), 0 <= aeps (the rectangles do not overlap at all, so any area tolerance
   works). [is_stog] itself needs only 0 < eps and 0 <= aeps. *)
From Coq Require Import List Bool Arith Lia String.
From FrameModel Require Import Num.QcTac Geometry.Rect Geometry.RectFacts Stog.CreateStog Stog.StogFacts.
From FrameModel Require Import Strop.Strop Strop.Spec Strop.StropBase Strop.StropSound.
Import ListNotations.
Open Scope Qc_scope.

Section Grid.
  Variables X Y : nat -> Qc.
  Variables nr nc : nat.
  Variable d : Qc.
  Hypothesis Xinc : forall j, (j < nc)%nat -> X j + d <= X (S j).
  Hypothesis Ydec : forall i, (i < nr)%nat -> Y (S i) + d <= Y i.
  Hypothesis dpos : 0 < d.

  Lemma X_mono a b : (a <= b)%nat -> (b <= nc)%nat -> X a <= X b.
  Proof.
    induction 1 as [|b Hab IH]; intros Hb; [qlra|].
    pose proof (Xinc b ltac:(lia)). pose proof (IH ltac:(lia)). qlra.
  Qed.
  Lemma X_step a b : (a < b)%nat -> (b <= nc)%nat -> X a + d <= X b.
  Proof.
    intros Hab Hb. destruct b; [lia|].
    pose proof (X_mono a b ltac:(lia) ltac:(lia)). pose proof (Xinc b ltac:(lia)). qlra.
  Qed.
  Lemma Y_mono a b : (a <= b)%nat -> (b <= nr)%nat -> Y b <= Y a.
  Proof.
    induction 1 as [|b Hab IH]; intros Hb; [qlra|].
    pose proof (Ydec b ltac:(lia)). pose proof (IH ltac:(lia)). qlra.
  Qed.
  Lemma Y_step a b : (a < b)%nat -> (b <= nr)%nat -> Y b + d <= Y a.
  Proof.
    intros Hab Hb. destruct b; [lia|].
    pose proof (Y_mono a b ltac:(lia) ltac:(lia)). pose proof (Ydec b ltac:(lia)). qlra.
  Qed.

  (* the rectangle [cx, cy, w, h] strop_decomposition builds for an index rectangle *)
  Definition to_rect (r : SRect) : Rect :=
    mkRect ((X (clo r) + X (S (chi r))) * half) ((Y (S (rhi r)) + Y (rlo r)) * half)
           (X (S (chi r)) - X (clo r)) (Y (rlo r) - Y (S (rhi r))) false false "" NOPOLY.

  Lemma to_rect_xmin r : xmin (to_rect r) = X (clo r).
  Proof. unfold xmin, to_rect. cbn [cx rw]. generalize (X (clo r)) (X (S (chi r))). intros. qlra. Qed.
  Lemma to_rect_xmax r : xmax (to_rect r) = X (S (chi r)).
  Proof. unfold xmax, to_rect. cbn [cx rw]. generalize (X (clo r)) (X (S (chi r))). intros. qlra. Qed.
  Lemma to_rect_ymin r : ymin (to_rect r) = Y (S (rhi r)).
  Proof. unfold ymin, to_rect. cbn [cy rh]. generalize (Y (rlo r)) (Y (S (rhi r))). intros. qlra. Qed.
  Lemma to_rect_ymax r : ymax (to_rect r) = Y (rlo r).
  Proof. unfold ymax, to_rect. cbn [cy rh]. generalize (Y (rlo r)) (Y (S (rhi r))). intros. qlra. Qed.

  Lemma to_rect_wf r : rect_ok nr nc r -> d <= rw (to_rect r) /\ d <= rh (to_rect r).
  Proof.
    intros (A & B & C & D). cbn [to_rect rw rh].
    pose proof (X_step (clo r) (S (chi r)) ltac:(lia) ltac:(lia)).
    pose proof (Y_step (rlo r) (S (rhi r)) ltac:(lia) ltac:(lia)). split; qlra.
  Qed.

  Variables eps aeps : Qc.
  Hypothesis eps_pos : 0 < eps.
  Hypothesis aeps_nonneg : 0 <= aeps.

  (* grid abutment (rows above = north) is coordinate abutment, with no overlap at all *)
  Lemma grid_abuts T B : rect_ok nr nc T -> rect_ok nr nc B -> Spec.abuts T B ->
    exists s, StogFacts.abuts eps aeps s (to_rect T) (to_rect B).
  Proof.
    intros (T1 & T2 & T3 & T4) (B1 & B2 & B3 & B4) Hab.
    assert (XL : forall a b, (a <= b)%nat -> (b <= nc)%nat -> X a <= X b) by exact X_mono.
    assert (YL : forall a b, (a <= b)%nat -> (b <= nr)%nat -> Y b <= Y a) by exact Y_mono.
    destruct Hab as [(A1 & A2 & A3)|[(A1 & A2 & A3)|[(A1 & A2 & A3)|(A1 & A2 & A3)]]].
    - exists NORTH. unfold StogFacts.abuts. split.
      + assert (Z : area_overlap (to_rect T) (to_rect B) = 0); [|rewrite Z; exact aeps_nonneg].
        apply ov_zero_iff. right. unfold by0, by1. rewrite !to_rect_ymin, !to_rect_ymax.
        replace (S (rhi B)) with (rlo T) by lia.
        generalize (Y (rlo T)) (Y (rlo B)) (Y (S (rhi T))). intros. qmlra.
      + rewrite !to_rect_ymin, !to_rect_ymax, !to_rect_xmin, !to_rect_xmax.
        replace (S (rhi B)) with (rlo T) by lia.
        pose proof (XL (clo T) (clo B) ltac:(lia) ltac:(lia)).
        pose proof (XL (S (chi B)) (S (chi T)) ltac:(lia) ltac:(lia)).
        generalize dependent (X (clo T)). generalize dependent (X (clo B)).
        generalize dependent (X (S (chi T))). generalize dependent (X (S (chi B))).
        generalize (Y (rlo T)). intros. repeat split; qmlra.
    - exists SOUTH. unfold StogFacts.abuts. split.
      + assert (Z : area_overlap (to_rect T) (to_rect B) = 0); [|rewrite Z; exact aeps_nonneg].
        apply ov_zero_iff. right. unfold by0, by1. rewrite !to_rect_ymin, !to_rect_ymax.
        rewrite A1. replace (rhi T + 1)%nat with (S (rhi T)) by lia.
        generalize (Y (rlo T)) (Y (S (rhi B))) (Y (S (rhi T))). intros. qmlra.
      + rewrite !to_rect_ymin, !to_rect_ymax, !to_rect_xmin, !to_rect_xmax.
        rewrite A1. replace (rhi T + 1)%nat with (S (rhi T)) by lia.
        pose proof (XL (clo T) (clo B) ltac:(lia) ltac:(lia)).
        pose proof (XL (S (chi B)) (S (chi T)) ltac:(lia) ltac:(lia)).
        generalize dependent (X (clo T)). generalize dependent (X (clo B)).
        generalize dependent (X (S (chi T))). generalize dependent (X (S (chi B))).
        generalize (Y (S (rhi T))). intros. repeat split; qmlra.
    - exists WEST. unfold StogFacts.abuts. split.
      + assert (Z : area_overlap (to_rect T) (to_rect B) = 0); [|rewrite Z; exact aeps_nonneg].
        apply ov_zero_iff. left. unfold bx0, bx1. rewrite !to_rect_xmin, !to_rect_xmax.
        replace (S (chi B)) with (clo T) by lia.
        generalize (X (clo T)) (X (clo B)) (X (S (chi T))). intros. qmlra.
      + rewrite !to_rect_ymin, !to_rect_ymax, !to_rect_xmin, !to_rect_xmax.
        replace (S (chi B)) with (clo T) by lia.
        pose proof (YL (rlo T) (rlo B) ltac:(lia) ltac:(lia)).
        pose proof (YL (S (rhi B)) (S (rhi T)) ltac:(lia) ltac:(lia)).
        generalize dependent (Y (rlo T)). generalize dependent (Y (rlo B)).
        generalize dependent (Y (S (rhi T))). generalize dependent (Y (S (rhi B))).
        generalize (X (clo T)). intros. repeat split; qmlra.
    - exists EAST. unfold StogFacts.abuts. split.
      + assert (Z : area_overlap (to_rect T) (to_rect B) = 0); [|rewrite Z; exact aeps_nonneg].
        apply ov_zero_iff. left. unfold bx0, bx1. rewrite !to_rect_xmin, !to_rect_xmax.
        rewrite A1. replace (chi T + 1)%nat with (S (chi T)) by lia.
        generalize (X (clo T)) (X (S (chi B))) (X (S (chi T))). intros. qmlra.
      + rewrite !to_rect_ymin, !to_rect_ymax, !to_rect_xmin, !to_rect_xmax.
        rewrite A1. replace (chi T + 1)%nat with (S (chi T)) by lia.
        pose proof (YL (rlo T) (rlo B) ltac:(lia) ltac:(lia)).
        pose proof (YL (S (rhi B)) (S (rhi T)) ltac:(lia) ltac:(lia)).
        generalize dependent (Y (rlo T)). generalize dependent (Y (rlo B)).
        generalize dependent (Y (S (rhi T))). generalize dependent (Y (S (rhi B))).
        generalize (X (S (chi T))). intros. repeat split; qmlra.
  Qed.

  (* any decomposition of a grid, trunk first, is a STOG in coordinates with the trunk at 0 *)
  Theorem decomp_is_stog M T Bs : nrows M = nr -> ncols M = nc -> decomp M T Bs ->
    is_stog_at eps aeps (map to_rect (T :: Bs)) 0 (to_rect T).
  Proof.
    intros Hr Hc (HT & HB & _). rewrite Hr, Hc in HT, HB. split; [reflexivity|].
    intros j r Hj Hne. destruct j as [|j]; [congruence|]. cbn [map nth_error] in Hj.
    apply nth_error_In in Hj. apply in_map_iff in Hj. destruct Hj as (B & <- & HinB).
    rewrite Forall_forall in HB. destruct (HB B HinB) as [HokB Hab].
    apply grid_abuts; assumption.
  Qed.

  Hypothesis eps_small : eps + eps <= d.

  Theorem decomp_create_stog M T Bs : nrows M = nr -> ncols M = nc -> decomp M T Bs ->
    exists t rest, create_stog eps aeps (map to_rect (T :: Bs)) = Some (true, set_loc t TRUNK :: rest) /\
      Forall (fun r => rloc r <> NOPOLY /\ rloc r <> TRUNK /\ StogFacts.abuts eps aeps (rloc r) t r) rest.
  Proof.
    intros Hr Hc D.
    assert (Ok : forall r, In r (T :: Bs) -> rect_ok nr nc r).
    { destruct D as (HT & HB & _). rewrite Hr, Hc in *. intros r [<-|Hin]; [exact HT|].
      rewrite Forall_forall in HB. exact (proj1 (HB r Hin)). }
    destruct (create_stog_complete eps aeps (map to_rect (T :: Bs))) as (out & E).
    - apply Forall_forall. intros r Hr'. apply in_map_iff in Hr'. destruct Hr' as (s & <- & Hs).
      destruct (to_rect_wf s (Ok s Hs)). unfold wf. split; qlra.
    - unfold nondegenerate. apply Forall_forall. intros r Hr'. apply in_map_iff in Hr'.
      destruct Hr' as (s & <- & Hs). destruct (to_rect_wf s (Ok s Hs)). split; qlra.
    - exists 0%nat, (to_rect T). exact (decomp_is_stog M T Bs Hr Hc D).
    - destruct (create_stog_true _ _ _ _ E) as (t & rest & -> & _ & F & _).
      exists t, rest. split; [exact E|exact F].
  Qed.
End Grid.

(* ====================== for the instances Strop offers ====================== *)
Theorem strop_to_stog : forall M inst (X Y : nat -> Qc) (d eps aeps : Qc),
  wf_matrix M = true -> In inst (instances M) ->
  (forall j, (j < ncols M)%nat -> X j + d <= X (S j)) ->
  (forall i, (i < nrows M)%nat -> Y (S i) + d <= Y i) ->
  0 < eps -> eps + eps <= d -> 0 <= aeps ->
  let rs := map (to_rect X Y) (rectangles inst) in
  is_stog_at eps aeps rs 0 (to_rect X Y (trunk inst)) /\
  exists t rest, create_stog eps aeps rs = Some (true, set_loc t TRUNK :: rest) /\
    Forall (fun r => rloc r <> NOPOLY /\ rloc r <> TRUNK /\ StogFacts.abuts eps aeps (rloc r) t r) rest.
Proof.
  intros M inst X Y d eps aeps W Hin HX HY He Hd Ha rs.
  pose proof (strop_sound M inst W Hin) as D.
  assert (dpos : 0 < d) by qlra.
  split.
  - exact (decomp_is_stog X Y (nrows M) (ncols M) d HX HY dpos eps aeps He Ha M _ _ eq_refl eq_refl D).
  - exact (decomp_create_stog X Y (nrows M) (ncols M) d HX HY dpos eps aeps He Ha Hd M _ _ eq_refl eq_refl D).
Qed.

(* the same with the grid given by column widths and row heights (Strop's width / height
   lists): boundaries are the prefix sums, rows counted from the top *)
Definition xs_of (x0 : Qc) (ws : list Qc) (j : nat) : Qc := x0 + Qcsum (firstn j ws).
Definition ys_of (y0 : Qc) (hs : list Qc) (i : nat) : Qc := y0 - Qcsum (firstn i hs).

Lemma firstn_S_nth (l : list Qc) j : (j < List.length l)%nat -> firstn (S j) l = firstn j l ++ [nth j l 0].
Proof.
  revert j. induction l as [|a l IH]; intros j H; [cbn in H; lia|]. destruct j; [reflexivity|].
  cbn [firstn nth app]. rewrite <- IH by (cbn in H; lia). reflexivity.
Qed.

Theorem strop_to_stog_widths : forall M inst (ws hs : list Qc) (x0 y0 d eps aeps : Qc),
  wf_matrix M = true -> In inst (instances M) ->
  List.length ws = ncols M -> List.length hs = nrows M ->
  Forall (fun w => d <= w) ws -> Forall (fun h => d <= h) hs ->
  0 < eps -> eps + eps <= d -> 0 <= aeps ->
  let rs := map (to_rect (xs_of x0 ws) (ys_of y0 hs)) (rectangles inst) in
  is_stog_at eps aeps rs 0 (to_rect (xs_of x0 ws) (ys_of y0 hs) (trunk inst)) /\
  exists t rest, create_stog eps aeps rs = Some (true, set_loc t TRUNK :: rest) /\
    Forall (fun r => rloc r <> NOPOLY /\ rloc r <> TRUNK /\ StogFacts.abuts eps aeps (rloc r) t r) rest.
Proof.
  intros M inst ws hs x0 y0 d eps aeps W Hin Lw Lh Fw Fh He Hd Ha.
  apply (strop_to_stog M inst _ _ d eps aeps W Hin); try assumption.
  - intros j Hj. unfold xs_of. rewrite firstn_S_nth by lia. rewrite Qcsum_app. cbn [Qcsum].
    assert (Q : d <= nth j ws 0).
    { rewrite Forall_forall in Fw. apply Fw. apply nth_In. lia. }
    generalize dependent (nth j ws 0). generalize (Qcsum (firstn j ws)). intros. qlra.
  - intros i Hi. unfold ys_of. rewrite firstn_S_nth by lia. rewrite Qcsum_app. cbn [Qcsum].
    assert (Q : d <= nth i hs 0).
    { rewrite Forall_forall in Fh. apply Fh. apply nth_In. lia. }
    generalize dependent (nth i hs 0). generalize (Qcsum (firstn i hs)). intros. qlra.
Qed.

(* non-vacuity: a pinwheel on a grid with unequal columns and rows (one instance, four sides) *)
Example strop_to_stog_ex :
  let M := [[false; true; false; false]; [true; true; true; false];
            [false; true; true; true]; [false; false; true; false]] in
  let rs := map (to_rect (xs_of 0 [qc 1 1; qc 2 1; qc 1 2; qc 1 1]) (ys_of (qc 10 1) [qc 1 1; qc 3 1; qc 1 4; qc 2 1]))
                (List.concat (map rectangles (instances M))) in
  map trunk (instances M) = [mkSR 1 2 1 2] /\ List.length rs = 5%nat /\
  exists out, create_stog (qc 1 1024) (qc 1 1024) rs = Some (true, out) /\
              map rloc out = [TRUNK; NORTH; SOUTH; EAST; WEST].
Proof. cbv zeta. split; [reflexivity|]. split; [reflexivity|]. eexists. split; [vm_compute; reflexivity|reflexivity]. Qed.
