(* Model of tools/floorset_parser/floor_set_manager/strop.py (definitions only).

   BoolMatrix            = list (list bool)     (row 0 on top, column 0 at the left)
   Interval              = option (nat * nat)   None is EMPTY_INTERVAL = Interval(-1,-1);
                                                every other interval the code builds has low >= 0
   StropRectangle        = SRect                (rows [rlo,rhi], columns [clo,chi], inclusive)

   The code keeps the candidate trunks in Python [set]s; their iteration order
   is not specified by the language.  The model lists them in the order of
   the final set comprehension of _get_trunks_matrix (row, then column), which
   is the lexicographic order of (rows.low, rows.high); the correspondence
   compares the list of instances after sorting the implementation's
   instances by their trunk (each instance's own rectangles stay in the order
   in which rectangles() yields them). *)
From Coq Require Import List Bool Arith Lia.
Import ListNotations.

Definition BoolMatrix := list (list bool).
Definition Interval := option (nat * nat).

Record SRect := mkSR { rlo : nat; rhi : nat; clo : nat; chi : nat }.

Definition srect_eqb (a b : SRect) : bool :=
  (rlo a =? rlo b) && (rhi a =? rhi b) && (clo a =? clo b) && (chi a =? chi b).

Definition interval_eqb (a b : Interval) : bool :=
  match a, b with
  | None, None => true
  | Some (l1, h1), Some (l2, h2) => (l1 =? l2) && (h1 =? h2)
  | _, _ => false
  end.

(* Interval.intersection *)
Definition inter (a b : Interval) : Interval :=
  match a, b with
  | Some (l1, h1), Some (l2, h2) =>
      let l := Nat.max l1 l2 in
      let h := Nat.min h1 h2 in
      if l <=? h then Some (l, h) else None
  | _, _ => None
  end.

(* ---------- matrix access ---------- *)
Definition nrows (M : BoolMatrix) : nat := length M.
Definition ncols (M : BoolMatrix) : nat := length (hd [] M).        (* len(lst[0]) *)
Definition cell (M : BoolMatrix) (i j : nat) : bool := nth j (nth i M []) false.
Definition column (M : BoolMatrix) (j : nat) : list bool := map (fun row => nth j row false) M.
Definition transpose (M : BoolMatrix) : BoolMatrix :=
  map (fun j => column M j) (seq 0 (ncols M)).

(* the assertions of Strop.__init__: at least one row, all rows of the length
   of the first (a row of a split() string is never empty) *)
Definition wf_matrix (M : BoolMatrix) : bool :=
  (0 <? nrows M) && (0 <? ncols M) && forallb (fun r => length r =? ncols M) M.

(* ---------- _row_interval ---------- *)
Fixpoint index_of (b : bool) (l : list bool) : option nat :=
  match l with
  | [] => None
  | x :: t => if Bool.eqb x b then Some 0 else option_map S (index_of b t)
  end.
(* R.index(b, start) *)
Definition index_from (b : bool) (l : list bool) (start : nat) : option nat :=
  option_map (fun k => start + k) (index_of b (skipn start l)).

Definition row_interval (R : list bool) : Interval :=
  match index_from true R 0 with
  | None => None
  | Some first_true =>
      match index_from false R (first_true + 1) with
      | None => Some (first_true, length R - 1)
      | Some first_false =>
          match index_from true R (first_false + 1) with
          | Some _ => None
          | None => Some (first_true, first_false - 1)
          end
      end
  end.

(* ---------- _get_trunks_matrix ----------
   Only the upper triangle rect[row][column], row <= column, is ever read.
   The table is kept as the list of its columns; column j holds rect[0..j][j].
   "for column in 1..n-1: for row in column-1 .. 0:
        rect[row][column] = rect[row+1][column].intersection(rect[row][column-1])"
   builds column j bottom-up from the diagonal entry and column j-1. *)
Fixpoint col_step (prev : list Interval) (d : Interval) : list Interval :=
  match prev with
  | [] => [d]
  | p :: prev' => let rest := col_step prev' d in inter (hd None rest) p :: rest
  end.

Fixpoint fill (prev : list Interval) (diag : list Interval) : list (list Interval) :=
  match diag with
  | [] => []
  | d :: diag' => let c := col_step prev d in c :: fill c diag'
  end.

Definition table (M : BoolMatrix) : list (list Interval) := fill [] (map row_interval M).

(* "Remove the non-prime rectangles by rows": rect[row][column] is emptied when it
   equals rect[row][column+1]; the loop goes left to right, so the right
   neighbour read is still the unfiltered one. *)
Fixpoint filt_row (c c' : list Interval) : list Interval :=
  match c, c' with
  | a :: t, b :: t' => (if interval_eqb a b then None else a) :: filt_row t t'
  | _, _ => c
  end.
Fixpoint prime_rows (cols : list (list Interval)) : list (list Interval) :=
  match cols with
  | c :: rest => match rest with
                 | c' :: _ => filt_row c c' :: prime_rows rest
                 | [] => [c]
                 end
  | [] => []
  end.

(* "Remove the non-prime rectangles by columns": rect[row][column] is emptied when it
   equals rect[row-1][column]; the loop goes bottom-up, so the entry above that is
   read has been through the row filter only. *)
Fixpoint filt_col (above : Interval) (c : list Interval) : list Interval :=
  match c with
  | [] => []
  | a :: t => (if interval_eqb a above then None else a) :: filt_col a t
  end.
Definition prime_col (c : list Interval) : list Interval :=
  match c with
  | [] => []
  | a :: t => a :: filt_col a t
  end.

Definition tab_get (cols : list (list Interval)) (row column : nat) : Interval :=
  nth row (nth column cols []) None.

Definition collect (n : nat) (cols : list (list Interval)) : list SRect :=
  flat_map (fun row =>
    flat_map (fun column =>
      match tab_get cols row column with
      | Some (l, h) => [mkSR row column l h]
      | None => []
      end) (seq row (n - row))) (seq 0 n).

Definition get_trunks_matrix (M : BoolMatrix) : list SRect :=
  collect (length M) (map prime_col (prime_rows (table M))).

(* ---------- _empty_corners ---------- *)
Definition any_cell (M : BoolMatrix) (r0 rn c0 cn : nat) : bool :=
  existsb (fun i => existsb (fun j => cell M i j) (seq c0 cn)) (seq r0 rn).

Definition empty_corners (M : BoolMatrix) (t : SRect) : bool :=
  negb (any_cell M 0 (rlo t) 0 (clo t)
        || any_cell M 0 (rlo t) (S (chi t)) (ncols M - S (chi t))
        || any_cell M (S (rhi t)) (nrows M - S (rhi t)) 0 (clo t)
        || any_cell M (S (rhi t)) (nrows M - S (rhi t)) (S (chi t)) (ncols M - S (chi t))).

(* ---------- _get_potential_trunks ---------- *)
Definition swap_rect (r : SRect) : SRect := mkSR (clo r) (chi r) (rlo r) (rhi r).

Definition potential_trunks (M : BoolMatrix) : list SRect :=
  let byrows := get_trunks_matrix M in
  let bycols := map swap_rect (get_trunks_matrix (transpose M)) in
  filter (fun t => existsb (srect_eqb t) bycols && empty_corners M t) byrows.

(* ---------- StropInstance ---------- *)
Record Inst := mkInst { trunk : SRect; north : list SRect; south : list SRect;
                        east : list SRect; west : list SRect }.

Fixpoint run_len (l : list bool) : nat :=       (* walk until the first False *)
  match l with
  | true :: t => S (run_len t)
  | _ => 0
  end.

Definition count_true (l : list bool) : nat := length (filter (fun b => b) l).
Definition num_cells (M : BoolMatrix) : nat := fold_right (fun r acc => count_true r + acc) 0 M.
Definition sum (l : list nat) : nat := fold_right Nat.add 0 l.

(* histograms restricted to the trunk's extent (the other entries stay 0 and are never read) *)
Definition h_north (M : BoolMatrix) (t : SRect) : list nat :=
  map (fun c => run_len (rev (firstn (rlo t) (column M c)))) (seq (clo t) (S (chi t) - clo t)).
Definition h_south (M : BoolMatrix) (t : SRect) : list nat :=
  map (fun c => run_len (skipn (S (rhi t)) (column M c))) (seq (clo t) (S (chi t) - clo t)).
Definition h_west (M : BoolMatrix) (t : SRect) : list nat :=
  map (fun r => run_len (rev (firstn (clo t) (nth r M [])))) (seq (rlo t) (S (rhi t) - rlo t)).
Definition h_east (M : BoolMatrix) (t : SRect) : list nat :=
  map (fun r => run_len (skipn (S (chi t)) (nth r M []))) (seq (rlo t) (S (rhi t) - rlo t)).

Definition area (r : SRect) : nat := (S (rhi r) - rlo r) * (S (chi r) - clo r).

Definition total (M : BoolMatrix) (t : SRect) : nat :=
  area t + sum (h_north M t) + sum (h_south M t) + sum (h_west M t) + sum (h_east M t).

Definition valid (M : BoolMatrix) (t : SRect) : bool := num_cells M =? total M t.

(* run-length walk over a histogram: (first index, last index, value) of every
   maximal run of equal non-zero values; [last] is the index of the previous entry *)
Fixpoint groups (init v last : nat) (rest : list nat) : list (nat * nat * nat) :=
  match rest with
  | [] => if v =? 0 then [] else [(init, last, v)]
  | x :: rest' =>
      if x =? v then groups init v (S last) rest'
      else (if v =? 0 then [] else [(init, last, v)]) ++ groups (S last) x (S last) rest'
  end.
Definition runs (lo : nat) (h : list nat) : list (nat * nat * nat) :=
  match h with
  | [] => []
  | v :: rest => groups lo v lo rest
  end.

Definition mk_north (t : SRect) (g : nat * nat * nat) : SRect :=
  let '(a, b, v) := g in mkSR (rlo t - v) (rlo t - 1) a b.
Definition mk_south (t : SRect) (g : nat * nat * nat) : SRect :=
  let '(a, b, v) := g in mkSR (rhi t + 1) (rhi t + v) a b.
Definition mk_west (t : SRect) (g : nat * nat * nat) : SRect :=
  let '(a, b, v) := g in mkSR a b (clo t - v) (clo t - 1).
Definition mk_east (t : SRect) (g : nat * nat * nat) : SRect :=
  let '(a, b, v) := g in mkSR a b (chi t + 1) (chi t + v).

Definition build_instance (M : BoolMatrix) (t : SRect) : Inst :=
  mkInst t
    (map (mk_north t) (runs (clo t) (h_north M t)))
    (map (mk_south t) (runs (clo t) (h_south M t)))
    (map (mk_east t) (runs (rlo t) (h_east M t)))
    (map (mk_west t) (runs (rlo t) (h_west M t))).

Definition mk_instance (M : BoolMatrix) (t : SRect) : option Inst :=
  if valid M t then Some (build_instance M t) else None.

(* Strop.__init__: the valid instances of the potential trunks *)
Definition instances (M : BoolMatrix) : list Inst :=
  flat_map (fun t => match mk_instance M t with Some i => [i] | None => [] end)
           (potential_trunks M).

Definition is_strop (M : BoolMatrix) : bool :=
  match instances M with [] => false | _ => true end.

(* StropInstance.rectangles(''): trunk, then N, S, E, W *)
Definition branches (i : Inst) : list SRect := north i ++ south i ++ east i ++ west i.
Definition rectangles (i : Inst) : list SRect := trunk i :: branches i.

(* the constructor as a whole: None = one of its assertions fails *)
Definition strop (M : BoolMatrix) : option (list Inst) :=
  if wf_matrix M then Some (instances M) else None.
