(* C15 - facts about the polygon-level model (Strop/Polygon.v).

   1. [sort_u_increasing]   sorted(set(...)) is strictly increasing, so the grid has
                            positive column widths and row heights ([gap_exists]);
   2. [poly_to_stog]        every rectangle list the model of strop_decomposition can return is,
                            loaded as coordinate rectangles, a STOG of C06 with the trunk first
                            (under the explicit tolerance hypotheses of strop_to_stog);
   3. [inside_rectangle]    for a rectangle outline, in either orientation, the even-odd test
                            is the half-open box test x0 <= px < x1, y0 <= py < y1, so the centre
                            of every cell of a grid refining the rectangle is inside iff the cell is;
   4. [point_inside_rev], [point_inside_rot]
                            the test does not depend on the orientation of the vertex list nor
                            on the vertex it starts from (for ANY vertex list). *)
From Coq Require Import List Bool Arith Lia String Permutation.
From FrameModel Require Import Num.QcTac Geometry.Rect Geometry.RectFacts Stog.CreateStog Stog.StogFacts.
From FrameModel Require Import Strop.Strop Strop.Spec Strop.StropBase Strop.StropSound Strop.StropStog
     Strop.Polygon.
Import ListNotations.
Open Scope Qc_scope.

(* ====================== 1. sorted(set(...)) ====================== *)
Definition incr (l : list Qc) : Prop :=
  forall j, (S j < List.length l)%nat -> nth j l 0 < nth (S j) l 0.

Lemma incr_cons a b t : a < b -> incr (b :: t) -> incr (a :: b :: t).
Proof.
  intros Hab H j Hj. destruct j; [exact Hab|]. apply (H j). cbn in Hj |- *. lia.
Qed.
Lemma incr_tail a t : incr (a :: t) -> incr t.
Proof. intros H j Hj. apply (H (S j)). cbn. lia. Qed.

Lemma insert_u_head x l : exists y t, insert_u x l = y :: t /\ (y = x \/ y = hd x l).
Proof.
  destruct l as [|a l]; cbn; [eauto|].
  destruct (Qcltb x a); [eauto|]. destruct (Qceqb x a); eauto.
Qed.

Lemma insert_u_incr x l : incr l -> incr (insert_u x l).
Proof.
  induction l as [|a l IH]; intros H.
  - intros j Hj. cbn in Hj. lia.
  - cbn [insert_u]. destruct (Qcltb x a) eqn:E1; qb2p.
    + apply incr_cons; assumption.
    + destruct (Qceqb x a) eqn:E2; qb2p; [exact H|].
      assert (Hax : a < x) by qlra.
      specialize (IH (incr_tail _ _ H)).
      destruct (insert_u_head x l) as (y & t & E & Hy). rewrite E in *.
      apply incr_cons; [|exact IH].
      destruct Hy as [ -> | -> ]; [exact Hax|]. destruct l as [|b l]; [exact Hax|].
      cbn. exact (H 0%nat ltac:(cbn; lia)).
Qed.

Theorem sort_u_increasing l : incr (sort_u l).
Proof.
  induction l as [|a l IH]; cbn.
  - intros j Hj. cbn in Hj. lia.
  - apply insert_u_incr. exact IH.
Qed.

(* a strictly increasing list has a positive minimal gap *)
Lemma gap_exists l : incr l ->
  exists d, 0 < d /\ forall j, (S j < List.length l)%nat -> nth j l 0 + d <= nth (S j) l 0.
Proof.
  induction l as [|a l IH]; intros H.
  - exists 1. split; [qlra|]. intros j Hj. cbn in Hj. lia.
  - destruct l as [|b t].
    + exists 1. split; [qlra|]. intros j Hj. cbn in Hj. lia.
    + destruct (IH (incr_tail _ _ H)) as (d & Hd & Hg).
      pose proof (H 0%nat ltac:(cbn; lia)) as Hab. cbn in Hab.
      exists (Qcmin d (b - a)). split; [qmlra|]. intros j Hj. destruct j.
      * cbn. qmlra.
      * specialize (Hg j ltac:(cbn in Hj |- *; lia)). cbn [nth] in Hg |- *.
        generalize dependent (nth j (b :: t) 0). generalize dependent (nth j t 0). intros. qmlra.
Qed.

(* ====================== 2. the returned rectangles are a STOG ====================== *)
Definition rect_of4 (r : Rect4) : Rect :=
  let '(x, y, w, h) := r in mkRect x y w h false false "" NOPOLY.

Lemma rect_of4_rect4 xs ys r :
  rect_of4 (rect4 xs ys r) = to_rect (fun j => nth j xs 0) (fun i => nth i ys 0) r.
Proof. reflexivity. Qed.

Lemma grid_matrix_nrows vs : nrows (grid_matrix vs) = (List.length (y_coords vs) - 1)%nat.
Proof. unfold nrows, grid_matrix. rewrite map_length, seq_length. reflexivity. Qed.
Lemma grid_matrix_ncols vs : wf_matrix (grid_matrix vs) = true ->
  ncols (grid_matrix vs) = (List.length (x_coords vs) - 1)%nat.
Proof.
  intros W. unfold wf_matrix in W. apply andb_true_iff in W. destruct W as [W _].
  apply andb_true_iff in W. destruct W as [W _]. apply Nat.ltb_lt in W.
  rewrite grid_matrix_nrows in W. unfold ncols, grid_matrix.
  destruct (List.length (y_coords vs) - 1)%nat as [|n] eqn:E; [lia|].
  cbn [seq map hd]. rewrite map_length, seq_length. reflexivity.
Qed.

Theorem poly_to_stog : forall vs L l (d eps aeps : Qc),
  strop_decomposition_all vs = Some L -> In l L ->
  (forall j, (S j < List.length (x_coords vs))%nat ->
     nth j (x_coords vs) 0 + d <= nth (S j) (x_coords vs) 0) ->
  (forall i, (S i < List.length (y_coords vs))%nat ->
     nth (S i) (y_coords vs) 0 + d <= nth i (y_coords vs) 0) ->
  0 < eps -> eps + eps <= d -> 0 <= aeps ->
  exists inst, In inst (instances (grid_matrix vs)) /\
    l = map (rect4 (x_coords vs) (y_coords vs)) (rectangles inst) /\
    is_stog_at eps aeps (map rect_of4 l) 0 (rect_of4 (rect4 (x_coords vs) (y_coords vs) (trunk inst))) /\
    exists t rest, create_stog eps aeps (map rect_of4 l) = Some (true, set_loc t TRUNK :: rest) /\
      Forall (fun r => rloc r <> NOPOLY /\ rloc r <> TRUNK /\ StogFacts.abuts eps aeps (rloc r) t r) rest.
Proof.
  intros vs L l d eps aeps E Hl HX HY He Hd Ha.
  unfold strop_decomposition_all, strop in E.
  destruct (wf_matrix (grid_matrix vs)) eqn:W; [|discriminate].
  assert (EL : L = map (fun i => map (rect4 (x_coords vs) (y_coords vs)) (rectangles i))
                       (instances (grid_matrix vs))).
  { destruct (instances (grid_matrix vs)); [discriminate|]. injection E as <-. reflexivity. }
  subst L. apply in_map_iff in Hl. destruct Hl as (inst & <- & Hin).
  exists inst. split; [exact Hin|]. split; [reflexivity|].
  rewrite map_map.
  rewrite (map_ext (fun x => rect_of4 (rect4 (x_coords vs) (y_coords vs) x))
                   (to_rect (fun j => nth j (x_coords vs) 0) (fun i => nth i (y_coords vs) 0)))
    by (intros; apply rect_of4_rect4).
  rewrite rect_of4_rect4.
  apply (strop_to_stog (grid_matrix vs) inst _ _ d eps aeps W Hin); try assumption.
  - intros j Hj. rewrite (grid_matrix_ncols vs W) in Hj. apply HX. lia.
  - intros i Hi. rewrite grid_matrix_nrows in Hi. apply HY. lia.
Qed.

(* the gap hypotheses are always satisfiable: the coordinate lists are strictly monotone *)
Theorem poly_gaps vs : exists d, 0 < d /\
  (forall j, (S j < List.length (x_coords vs))%nat ->
     nth j (x_coords vs) 0 + d <= nth (S j) (x_coords vs) 0) /\
  (forall i, (S i < List.length (y_coords vs))%nat ->
     nth (S i) (y_coords vs) 0 + d <= nth i (y_coords vs) 0).
Proof.
  destruct (gap_exists _ (sort_u_increasing (map fst vs))) as (d1 & H1 & G1).
  destruct (gap_exists _ (sort_u_increasing (map snd vs))) as (d2 & H2 & G2).
  exists (Qcmin d1 d2). split; [qmlra|]. split.
  - intros j Hj. specialize (G1 j Hj). unfold x_coords.
    generalize dependent (nth j (sort_u (map fst vs)) 0).
    generalize (nth (S j) (sort_u (map fst vs)) 0). intros. qmlra.
  - intros i Hi. unfold y_coords in *. rewrite rev_length in Hi.
    set (s := sort_u (map snd vs)) in *. set (n := List.length s) in *.
    rewrite (rev_nth s 0) by (fold n; lia). rewrite (rev_nth s 0) by (fold n; lia). fold n.
    specialize (G2 (n - S (S i))%nat ltac:(fold n; lia)).
    replace (S (n - S (S i))) with (n - S i)%nat in G2 by lia.
    generalize dependent (nth (n - S (S i)) s 0). generalize (nth (n - S i) s 0). intros. qmlra.
Qed.

(* ====================== 3. a rectangle outline ====================== *)
Lemma vertical_cross px py x ya yb :
  crosses (px, py) (x, ya) (x, yb) =
  ((Qcleb ya py && Qcltb py yb) || (Qcleb yb py && Qcltb py ya)) && Qcltb px x.
Proof.
  unfold crosses.
  replace (x + (py - ya) * (x - x) / (yb - ya)) with x by (unfold Qcdiv; ring).
  destruct ((Qcleb ya py && Qcltb py yb) || (Qcleb yb py && Qcltb py ya)); reflexivity.
Qed.
Lemma horizontal_cross px py xa xb y : crosses (px, py) (xa, y) (xb, y) = false.
Proof.
  unfold crosses. destruct (Qcleb y py) eqn:A, (Qcltb py y) eqn:B; cbn; try reflexivity.
  exfalso. qb2p. qlra.
Qed.

Definition in_box (x0 x1 y0 y1 px py : Qc) : bool :=
  Qcleb x0 px && Qcltb px x1 && Qcleb y0 py && Qcltb py y1.

Theorem inside_rectangle x0 x1 y0 y1 px py : x0 < x1 -> y0 < y1 ->
  point_inside (px, py) [(x0, y0); (x1, y0); (x1, y1); (x0, y1)] = in_box x0 x1 y0 y1 px py /\
  point_inside (px, py) [(x0, y1); (x1, y1); (x1, y0); (x0, y0)] = in_box x0 x1 y0 y1 px py.
Proof.
  intros Hx Hy. unfold point_inside, edges, in_box. cbn [app combine fold_left fst snd].
  rewrite !vertical_cross, !horizontal_cross.
  destruct (Qcleb y0 py) eqn:A, (Qcltb py y1) eqn:B, (Qcleb y1 py) eqn:C, (Qcltb py y0) eqn:D,
           (Qcltb px x1) eqn:E, (Qcltb px x0) eqn:F, (Qcleb x0 px) eqn:G; cbn;
    try (split; reflexivity); exfalso; qb2p; qlra.
Qed.

(* consequence for the grid step: for a grid refining the rectangle (cell boundaries a < b
   within [x0, x1], c < e within [y0, y1]) the centre of a cell is inside the outline, and the
   centre of a cell beside it (completely to the left, right, below or above) is not *)
Theorem rectangle_cell_centre x0 x1 y0 y1 a b c e : x0 < x1 -> y0 < y1 -> a < b -> c < e ->
  (x0 <= a -> b <= x1 -> y0 <= c -> e <= y1 ->
     point_inside (mid a b, mid c e) [(x0, y0); (x1, y0); (x1, y1); (x0, y1)] = true) /\
  (b <= x0 \/ x1 <= a \/ e <= y0 \/ y1 <= c ->
     point_inside (mid a b, mid c e) [(x0, y0); (x1, y0); (x1, y1); (x0, y1)] = false).
Proof.
  intros Hx Hy Hab Hce. destruct (inside_rectangle x0 x1 y0 y1 (mid a b) (mid c e) Hx Hy) as [E _].
  rewrite E. unfold in_box, mid. split.
  - intros. rewrite !andb_true_iff. repeat split; qb2p; qlra.
  - intros H.
    destruct (Qcleb x0 ((a + b) * half)) eqn:A, (Qcltb ((a + b) * half) x1) eqn:B,
             (Qcleb y0 ((c + e) * half)) eqn:C, (Qcltb ((c + e) * half) y1) eqn:D; cbn; try reflexivity.
    exfalso. qb2p. destruct H as [H|[H|[H|H]]]; qlra.
Qed.

(* ====================== 4. orientation and start vertex do not matter ====================== *)
Definition tog (p : Pt) (e : Pt * Pt) : bool := crosses p (fst e) (snd e).
Fixpoint par (p : Pt) (l : list (Pt * Pt)) : bool :=
  match l with [] => false | e :: t => xorb (tog p e) (par p t) end.

Lemma fold_par p l : forall b,
  fold_left (fun acc e => if crosses p (fst e) (snd e) then negb acc else acc) l b = xorb b (par p l).
Proof.
  induction l as [|e l IH]; intros b; cbn [fold_left par]; [destruct b; reflexivity|].
  rewrite IH. unfold tog. destruct (crosses p (fst e) (snd e)), b, (par p l); reflexivity.
Qed.
Lemma point_inside_par p vs : point_inside p vs = par p (edges vs).
Proof. unfold point_inside. rewrite fold_par. apply xorb_false_l. Qed.

Lemma par_app p l1 l2 : par p (l1 ++ l2) = xorb (par p l1) (par p l2).
Proof.
  induction l1 as [|e l1 IH]; cbn [app par]; [destruct (par p l2); reflexivity|].
  rewrite IH. destruct (tog p e), (par p l1), (par p l2); reflexivity.
Qed.
Lemma par_perm p l l' : Permutation l l' -> par p l = par p l'.
Proof.
  induction 1; cbn [par]; [reflexivity|congruence| |congruence].
  destruct (tog p x), (tog p y), (par p l); reflexivity.
Qed.

Lemma crosses_sym p a b : crosses p a b = crosses p b a.
Proof.
  destruct p as [px py], a as [x1 y1], b as [x2 y2]. unfold crosses.
  rewrite (orb_comm (Qcleb y2 py && Qcltb py y1)).
  destruct ((Qcleb y1 py && Qcltb py y2) || (Qcleb y2 py && Qcltb py y1)) eqn:C; [|reflexivity].
  assert (Hne : y1 <> y2).
  { intros ->. destruct (Qcleb y2 py) eqn:A, (Qcltb py y2) eqn:B; cbn in C; try discriminate.
    qb2p. qlra. }
  f_equal. field. split; intros Q; apply Hne; qlra.
Qed.

Definition swap_e (e : Pt * Pt) : Pt * Pt := (snd e, fst e).
Lemma par_swap p l : par p (map swap_e l) = par p l.
Proof.
  induction l as [|e l IH]; cbn [map par]; [reflexivity|]. rewrite IH. f_equal.
  unfold tog, swap_e. cbn [fst snd]. apply crosses_sym.
Qed.

(* the closed chain of edges *)
Fixpoint chain (a : Pt) (l : list Pt) : list (Pt * Pt) :=
  match l with [] => [] | b :: t => (a, b) :: chain b t end.

Lemma combine_chain : forall t a c, combine (a :: t) (t ++ [c]) = chain a (t ++ [c]).
Proof. induction t as [|b t IH]; intros a c; cbn; [reflexivity|]. f_equal. apply IH. Qed.
Lemma edges_chain v0 t : edges (v0 :: t) = chain v0 (t ++ [v0]).
Proof. unfold edges. apply combine_chain. Qed.
Lemma last_cons_indep : forall (l : list Pt) x d d', last (x :: l) d = last (x :: l) d'.
Proof. induction l as [|y l IH]; intros x d d'; [reflexivity|]. cbn [last] in *. apply (IH y). Qed.
Lemma chain_app : forall l1 a l2, chain a (l1 ++ l2) = chain a l1 ++ chain (last l1 a) l2.
Proof.
  induction l1 as [|b l1 IH]; intros a l2; [reflexivity|]. cbn [app chain]. rewrite IH. f_equal.
  f_equal. destruct l1; [reflexivity|]. f_equal. change (last (b :: p :: l1) a) with (last (p :: l1) a). apply last_cons_indep.
Qed.

(* starting from the next vertex *)
Lemma edges_rot v0 t : Permutation (edges (t ++ [v0])) (edges (v0 :: t)).
Proof.
  destruct t as [|v1 t]; [apply Permutation_refl|].
  rewrite edges_chain. cbn [app]. rewrite edges_chain. cbn [chain].
  rewrite chain_app. rewrite last_last. cbn [chain].
  apply Permutation_sym. apply Permutation_cons_append.
Qed.

Theorem point_inside_rot p v0 t : point_inside p (t ++ [v0]) = point_inside p (v0 :: t).
Proof. rewrite !point_inside_par. apply par_perm. apply edges_rot. Qed.

Lemma chain_rev : forall l a c, map swap_e (rev (chain a (l ++ [c]))) = chain c (rev l ++ [a]).
Proof.
  induction l as [|b l IH]; intros a c; [reflexivity|].
  cbn [app chain rev]. rewrite map_app, IH. cbn [map swap_e fst snd].
  rewrite (chain_app (rev l ++ [b]) c [a]). rewrite last_last. reflexivity.
Qed.

Theorem point_inside_rev p vs : point_inside p (rev vs) = point_inside p vs.
Proof.
  destruct vs as [|v0 t]; [reflexivity|]. cbn [rev].
  rewrite point_inside_rot. rewrite !point_inside_par, !edges_chain.
  rewrite <- chain_rev. rewrite par_swap. apply par_perm. apply Permutation_sym. apply Permutation_rev.
Qed.

(* any cyclic shift *)
Theorem point_inside_shift p l1 l2 : point_inside p (l2 ++ l1) = point_inside p (l1 ++ l2).
Proof.
  revert l2. induction l1 as [|a l1 IH]; intros l2; [rewrite app_nil_r; reflexivity|].
  cbn [app]. rewrite <- point_inside_rot. rewrite <- app_assoc. rewrite <- IH.
  rewrite <- app_assoc. reflexivity.
Qed.

(* ====================== 5. a worked polygon, and the statement that is NOT proved ====================== *)
Definition L_example : list Pt :=
  [(0, 0); (qc 2 1, 0); (qc 2 1, qc 1 1); (qc 1 1, qc 1 1); (qc 1 1, qc 5 2); (0, qc 5 2)].

Example poly_ex :
  grid_matrix L_example = [[true; false]; [true; true]] /\
  exists l1 l2, strop_decomposition_all L_example = Some [l1; l2] /\
    map (fun l => option_map (fun x => (fst x, map rloc (snd x)))
                    (create_stog (qc 1 100) (qc 1 100) (map rect_of4 l))) [l1; l2] =
    [Some (true, [TRUNK; EAST]); Some (true, [TRUNK; NORTH])].
Proof. split; [reflexivity|]. eexists. eexists. split; [vm_compute; reflexivity|reflexivity]. Qed.

(* axis-parallel edges; no zero-length edge; two edges meet only in the common end point of
   consecutive edges (cyclically) *)
Definition on_seg (p : Pt) (e : Pt * Pt) : Prop :=
  Qcmin (fst (fst e)) (fst (snd e)) <= fst p /\ fst p <= Qcmax (fst (fst e)) (fst (snd e)) /\
  Qcmin (snd (fst e)) (snd (snd e)) <= snd p /\ snd p <= Qcmax (snd (fst e)) (snd (snd e)).
Definition orthogonal (vs : list Pt) : Prop :=
  Forall (fun e => fst (fst e) = fst (snd e) \/ snd (fst e) = snd (snd e)) (edges vs).
Definition simple (vs : list Pt) : Prop :=
  let es := edges vs in let n := List.length es in let d := ((0, 0), (0, 0)) in
  (forall i, (i < n)%nat -> fst (nth i es d) <> snd (nth i es d)) /\
  forall i j p, (i < j < n)%nat -> on_seg p (nth i es d) -> on_seg p (nth j es d) ->
    (j = S i /\ p = snd (nth i es d)) \/ (i = 0%nat /\ j = (n - 1)%nat /\ p = fst (nth 0 es d)).

Definition rect4_area (r : Rect4) : Qc := let '(_, _, w, h) := r in w * h.
Definition shoelace (vs : list Pt) : Qc :=
  Qcabs (Qcsum (map (fun e => fst (fst e) * snd (snd e) - fst (snd e) * snd (fst e)) (edges vs)) * half).

(* "the resulting rectangles have the polygon's area", for every simple orthogonal polygon:
   NOT proved (it needs: cell centre inside by the even-odd rule <-> cell inside the polygon,
   a Jordan-curve argument); checked on every generated polygon by the oracle *)
Definition polygon_area_statement : Prop :=
  forall vs L l, orthogonal vs -> simple vs -> strop_decomposition_all vs = Some L -> In l L ->
    Qcsum (map rect4_area l) = shoelace vs.

(* the statement is at least true of the worked example *)
Example polygon_area_ex : forall L l, strop_decomposition_all L_example = Some L -> In l L ->
  Qcsum (map rect4_area l) = shoelace L_example.
Proof.
  intros L l E Hl. vm_compute in E. injection E as <-.
  destruct Hl as [<-|[<-|[]]]; apply Qc_is_canon; reflexivity.
Qed.
