(* Model of the TEXT input of tools/floorset_parser/floor_set_manager/strop.py
   (definitions and facts): Strop.__init__(str_matrix) does

       lst = str_matrix.split()                       # rows = maximal runs of non-whitespace
       assert len(lst) > 0
       assert all(len(x) == len(lst[0]) for x in lst)
       assert all(lst[i][j] in {'0', '1'} ...)
       self._m = [[lst[i][j] == '1' ...] ...]

   A text is the list of its code points.  [is_space] is Python's str.isspace (the
   separators of str.split() without argument): TAB LF VT FF CR, FS GS RS US, SPACE,
   NEL, NBSP, OGHAM SPACE, EN QUAD .. HAIR SPACE, LINE / PARAGRAPH SEPARATOR, NNBSP,
   MMSP, IDEOGRAPHIC SPACE.  Every failing assertion is the outcome [None].

   Proved: whatever whitespace is put before, between and after the rows (any
   non-empty run between two rows; anything, also nothing, before the first and
   after the last), the constructor sees the same matrix: [strop_text] of the
   spelling equals [strop] of the matrix, so every theorem about [strop] /
   [instances] speaks about every accepted spelling.  strop_decomposition writes
   each row followed by LF; the harness joins rows by one SPACE. *)
From Coq Require Import List Bool Arith NArith Lia.
From FrameModel Require Import Strop.Strop.
Import ListNotations.
Open Scope N_scope.

Definition Text := list N.

Definition is_space (c : N) : bool :=
  ((9 <=? c) && (c <=? 13)) || ((28 <=? c) && (c <=? 32)) || (c =? 133) || (c =? 160) ||
  (c =? 5760) || ((8192 <=? c) && (c <=? 8202)) || (c =? 8232) || (c =? 8233) ||
  (c =? 8239) || (c =? 8287) || (c =? 12288).

(* str.split(): [cur] is the current row read so far, reversed *)
Definition flush (cur : Text) (rest : list Text) : list Text :=
  match cur with [] => rest | _ => rev cur :: rest end.

Fixpoint split_from (cur : Text) (s : Text) : list Text :=
  match s with
  | [] => flush cur []
  | c :: t => if is_space c then flush cur (split_from [] t) else split_from (c :: cur) t
  end.
Definition split (s : Text) : list Text := split_from [] s.

Definition is_bit (c : N) : bool := (c =? 48) || (c =? 49).          (* '0', '1' *)
Definition row_of_text (t : Text) : list bool := map (fun c => c =? 49) t.

(* the matrix the constructor builds, before the size assertions (which [strop] models) *)
Definition parse_matrix (s : Text) : option BoolMatrix :=
  let lst := split s in
  if forallb (forallb is_bit) lst then Some (map row_of_text lst) else None.

Definition strop_text (s : Text) : option (list Inst) :=
  match parse_matrix s with
  | None => None
  | Some M => strop M
  end.

(* ---------- spellings ---------- *)
Definition digit (b : bool) : N := if b then 49 else 48.
Definition digits (row : list bool) : Text := map digit row.

(* rows with the separator that follows each of them *)
Fixpoint render (items : list (Text * Text)) : Text :=
  match items with
  | [] => []
  | (tok, sep) :: rest => tok ++ sep ++ render rest
  end.

Definition blank (s : Text) : Prop := forallb is_space s = true.
Definition word (s : Text) : Prop := s <> [] /\ forallb (fun c => negb (is_space c)) s = true.

(* every separator is blank; all but the last are non-empty *)
Fixpoint seps_ok (items : list (Text * Text)) : Prop :=
  match items with
  | [] => True
  | (_, sep) :: rest => blank sep /\ (rest = [] \/ sep <> []) /\ seps_ok rest
  end.

(* ---------- facts ---------- *)
Lemma split_from_word w : forall cur s,
  forallb (fun c => negb (is_space c)) w = true ->
  split_from cur (w ++ s) = split_from (rev w ++ cur) s.
Proof.
  induction w as [|c w IH]; intros cur s H; cbn; [reflexivity|].
  cbn in H. apply andb_true_iff in H. destruct H as [Hc Hw].
  apply negb_true_iff in Hc. rewrite Hc. rewrite (IH (c :: cur) s Hw).
  rewrite <- app_assoc. reflexivity.
Qed.

Lemma split_from_blank sep : forall s, forallb is_space sep = true ->
  split_from [] (sep ++ s) = split_from [] s.
Proof.
  induction sep as [|c sep IH]; intros s H; cbn; [reflexivity|].
  cbn in H. apply andb_true_iff in H. destruct H as [Hc Hs]. rewrite Hc. cbn. exact (IH s Hs).
Qed.

(* a pending row followed by a non-empty blank run is emitted *)
Lemma split_from_sep cur sep s : cur <> [] -> sep <> [] -> forallb is_space sep = true ->
  split_from cur (sep ++ s) = rev cur :: split_from [] s.
Proof.
  intros Hcur Hsep H. destruct sep as [|c sep]; [contradiction|].
  cbn in H. apply andb_true_iff in H. destruct H as [Hc Hs].
  cbn. rewrite Hc. destruct cur as [|x cur']; [contradiction|].
  cbn [flush]. f_equal. exact (split_from_blank sep s Hs).
Qed.

Lemma split_from_end cur sep : cur <> [] -> forallb is_space sep = true ->
  split_from cur sep = [rev cur].
Proof.
  intros Hcur H. destruct cur as [|x cur']; [contradiction|].
  destruct sep as [|c sep]; [reflexivity|].
  cbn in H. apply andb_true_iff in H. destruct H as [Hc Hs].
  cbn. rewrite Hc. cbn [flush]. f_equal.
  rewrite <- (app_nil_r sep). rewrite (split_from_blank sep [] Hs). reflexivity.
Qed.

Theorem split_render : forall items,
  Forall (fun it => word (fst it)) items -> seps_ok items ->
  split_from [] (render items) = map fst items.
Proof.
  induction items as [|[tok sep] rest IH]; intros Hw Hs; [reflexivity|].
  inversion Hw as [|? ? [Hne Hnw] Hw']; subst. cbn in Hne, Hnw.
  cbn [seps_ok] in Hs. destruct Hs as (Hb & Hlast & Hrest).
  cbn [render map fst]. rewrite (split_from_word tok [] _ Hnw). rewrite app_nil_r.
  assert (Hrev : rev tok <> []).
  { intro E. apply Hne. rewrite <- (rev_involutive tok), E. reflexivity. }
  destruct Hlast as [E|Hsep].
  - subst rest. cbn [render map]. rewrite app_nil_r.
    rewrite (split_from_end (rev tok) sep Hrev Hb). rewrite rev_involutive. reflexivity.
  - rewrite (split_from_sep (rev tok) sep _ Hrev Hsep Hb). rewrite rev_involutive.
    f_equal. exact (IH Hw' Hrest).
Qed.

Theorem split_spelling lead items :
  blank lead -> Forall (fun it => word (fst it)) items -> seps_ok items ->
  split (lead ++ render items) = map fst items.
Proof.
  intros Hl Hw Hs. unfold split. rewrite (split_from_blank lead _ Hl). exact (split_render items Hw Hs).
Qed.

Lemma forallb_map {A B} (f : A -> B) (p : B -> bool) l :
  forallb p (map f l) = forallb (fun x => p (f x)) l.
Proof. induction l as [|a l IH]; cbn; [reflexivity|]. rewrite IH. reflexivity. Qed.

Lemma digit_not_space b : is_space (digit b) = false.
Proof. destruct b; reflexivity. Qed.
Lemma digit_bit b : is_bit (digit b) = true.
Proof. destruct b; reflexivity. Qed.
Lemma digit_back b : (digit b =? 49) = b.
Proof. destruct b; reflexivity. Qed.

Lemma digits_word row : row <> [] -> word (digits row).
Proof.
  intros H. split.
  - destruct row; [contradiction|discriminate].
  - unfold digits. rewrite forallb_map. apply forallb_forall. intros b _.
    rewrite digit_not_space. reflexivity.
Qed.
Lemma digits_bits row : forallb is_bit (digits row) = true.
Proof. unfold digits. rewrite forallb_map. apply forallb_forall. intros b _. apply digit_bit. Qed.
Lemma digits_back row : row_of_text (digits row) = row.
Proof.
  unfold row_of_text, digits. rewrite map_map. rewrite <- (map_id row) at 2.
  apply map_ext. exact digit_back.
Qed.

(* the spelling of a matrix with the given separators (one per row) *)
Definition spell (lead : Text) (M : BoolMatrix) (seps : list Text) : Text :=
  lead ++ render (combine (map digits M) seps).

Lemma combine_fst {A B} : forall (l : list A) (l' : list B), length l = length l' ->
  map fst (combine l l') = l.
Proof.
  induction l as [|a l IH]; intros [|b l'] H; cbn in *; try reflexivity; try discriminate.
  f_equal. apply IH. lia.
Qed.

Lemma combine_words : forall (M : BoolMatrix) (seps : list Text),
  Forall (fun row => row <> []) M ->
  Forall (fun it => word (fst it)) (combine (map digits M) seps).
Proof.
  induction M as [|row M IH]; intros seps H; cbn; [constructor|].
  destruct seps as [|sep seps]; [constructor|].
  inversion H; subst. constructor; [cbn; apply digits_word; assumption|apply IH; assumption].
Qed.

(* separators for a matrix: blank, all but the last non-empty *)
Fixpoint seps_fit (seps : list Text) : Prop :=
  match seps with
  | [] => True
  | sep :: rest => blank sep /\ (rest = [] \/ sep <> []) /\ seps_fit rest
  end.

Lemma combine_seps : forall (toks : list Text) (seps : list Text),
  length toks = length seps -> seps_fit seps -> seps_ok (combine toks seps).
Proof.
  induction toks as [|t toks IH]; intros [|sep seps] H Hs; cbn in *; try exact I; try discriminate.
  destruct Hs as (Hb & Hl & Hr). split; [exact Hb|]. split.
  - destruct Hl as [E|Hne]; [|right; exact Hne]. left. subst seps.
    destruct toks; [reflexivity|discriminate].
  - apply IH; [lia|exact Hr].
Qed.

Theorem parse_spelling lead M seps :
  blank lead -> Forall (fun row => row <> []) M -> length seps = length M -> seps_fit seps ->
  parse_matrix (spell lead M seps) = Some M.
Proof.
  intros Hl Hrows Hlen Hs. unfold parse_matrix, spell.
  assert (Hlen' : length (map digits M) = length seps) by (rewrite map_length; lia).
  rewrite (split_spelling lead _ Hl (combine_words M seps Hrows) (combine_seps _ _ Hlen' Hs)).
  rewrite (combine_fst _ _ Hlen').
  replace (forallb (forallb is_bit) (map digits M)) with true.
  - f_equal. rewrite map_map. rewrite <- (map_id M) at 2. apply map_ext. exact digits_back.
  - symmetry. rewrite forallb_map. apply forallb_forall. intros row _. apply digits_bits.
Qed.

(* every accepted spelling of a matrix gives the constructor's answer on that matrix *)
Theorem strop_text_spelling lead M seps :
  blank lead -> Forall (fun row => row <> []) M -> length seps = length M -> seps_fit seps ->
  strop_text (spell lead M seps) = strop M.
Proof.
  intros Hl Hrows Hlen Hs. unfold strop_text. rewrite (parse_spelling lead M seps Hl Hrows Hlen Hs).
  reflexivity.
Qed.

(* a character other than '0' and '1' in some row: refused *)
Theorem strop_text_nonbinary s :
  existsb (existsb (fun c => negb (is_bit c))) (split s) = true -> strop_text s = None.
Proof.
  intros H. unfold strop_text, parse_matrix.
  replace (forallb (forallb is_bit) (split s)) with false; [reflexivity|].
  symmetry. apply not_true_iff_false. intro E.
  apply existsb_exists in H. destruct H as (row & Hin & Hrow).
  apply existsb_exists in Hrow. destruct Hrow as (c & Hc & Hnb).
  rewrite forallb_forall in E. specialize (E row Hin). rewrite forallb_forall in E.
  rewrite (E c Hc) in Hnb. discriminate.
Qed.

(* a text without any row (empty or blank): refused *)
Theorem strop_text_blank s : blank s -> strop_text s = None.
Proof.
  intros H. unfold strop_text, parse_matrix, split.
  rewrite <- (app_nil_r s). rewrite (split_from_blank s [] H). reflexivity.
Qed.

(* worked example: "\t10\n11  01 \n" with a ragged-free 3 x 2 matrix, and the text
   strop_decomposition builds (every row followed by LF) *)
Example spelling_ex :
  let M := [[true; false]; [true; true]; [false; true]] in
  spell [9] M [[10]; [32; 32]; [32; 10]] = [9; 49; 48; 10; 49; 49; 32; 32; 48; 49; 32; 10] /\
  strop_text (spell [9] M [[10]; [32; 32]; [32; 10]]) = strop M /\
  strop_text (spell [] M [[10]; [10]; [10]]) = strop M /\
  strop_text [49; 50] = None /\ strop_text [32; 10] = None /\ strop_text [49; 32; 49; 49] = None.
Proof. repeat split; reflexivity. Qed.
