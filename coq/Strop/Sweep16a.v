(* C15 - exhaustive sweep over all 0/1 matrices: shapes 1x16 and 16x1.
   The proof term is a single VM conversion ([sweep]s computed to true). *)
From Coq Require Import List Bool Arith.
From FrameModel Require Import Strop.Strop Strop.Spec Strop.StropBase.
Import ListNotations.

Lemma Sweep16a_ok : forallb sweepp ([(1, 16); (16, 1)]) = true.
Proof. vm_cast_no_check (eq_refl true). Qed.
