(* C15 - the exhaustive sweeps (Sweep*.v: every 0/1 matrix of every shape with at most 16
   cells, evaluated by vm_compute) lifted to the bounded completeness statement.  Independent
   cross-check by computation of strop_complete / strop_sound on the finite domain; not a
   dependency of the property theorems (completeness is proved for all sizes in
   StropComplete.v). *)
From Coq Require Import List Bool Arith Lia.
From FrameModel Require Import Strop.Strop Strop.Spec Strop.StropBase.
From FrameModel Require Import Strop.Sweep12 Strop.Sweep13 Strop.Sweep15
     Strop.Sweep16a Strop.Sweep16b Strop.Sweep16c.
Import ListNotations.

(* ====================== Part 1: bounded completeness ====================== *)
Lemma sweepp_in L p : forallb sweepp L = true -> In p L -> sweepp p = true.
Proof. intros H Hin. rewrite forallb_forall in H. exact (H p Hin). Qed.

Theorem sweep_all_16 R C : 1 <= R -> 1 <= C -> R * C <= 16 -> sweep R C = true.
Proof.
  intros HR HC Hn. change (sweepp (R, C) = true).
  destruct (le_lt_dec (R * C) 12) as [H12|H12].
  { apply (sweepp_in _ _ Sweep12_ok). apply in_shapes_le; assumption. }
  assert (Hc : R * C = 13 \/ R * C = 14 \/ R * C = 15 \/ R * C = 16) by lia.
  destruct Hc as [H|[H|[H|H]]].
  - apply (sweepp_in _ _ Sweep13_ok). apply in_or_app. left. apply in_shapes_eq; assumption.
  - apply (sweepp_in _ _ Sweep13_ok). apply in_or_app. right. apply in_shapes_eq; assumption.
  - apply (sweepp_in _ _ Sweep15_ok). apply in_shapes_eq; assumption.
  - pose proof (in_shapes_eq R C 16 HR HC H) as Hin. vm_compute in Hin.
    destruct Hin as [E|[E|[E|[E|[E|[]]]]]]; rewrite <- E.
    + apply (sweepp_in _ _ Sweep16a_ok). left; reflexivity.
    + apply (sweepp_in _ _ Sweep16b_ok). left; reflexivity.
    + apply (sweepp_in _ _ Sweep16c_ok). left; reflexivity.
    + apply (sweepp_in _ _ Sweep16b_ok). right; left; reflexivity.
    + apply (sweepp_in _ _ Sweep16a_ok). right; left; reflexivity.
Qed.

Theorem strop_complete_bounded_by_sweep : forall R C M,
  1 <= R -> 1 <= C -> R * C <= 16 -> shape M R C ->
  (is_strop M = true <-> has_decomp M = true) /\
  (is_strop M = true <-> exists T Bs, decomp M T Bs) /\
  (forall inst, In inst (instances M) -> decomp M (trunk inst) (branches inst)).
Proof.
  intros R C M HR HC Hn HM.
  pose proof (sweep_lift R C (sweep_all_16 R C HR HC Hn) M HM) as Hck.
  destruct (check_meaning M Hck) as [H1 H2].
  split; [|split; assumption].
  unfold check in Hck. apply andb_true_iff in Hck. destruct Hck as [E _].
  apply eqb_prop in E. rewrite E. tauto.
Qed.

