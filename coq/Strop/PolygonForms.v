(* C15 - the vertex list in all the forms utils.strop_decomposition accepts.

   The code reads a vertex either as a Point object (p.x, p.y) or as a row of a numpy
   array (p[0], p[1]; is_point_inside_polygon turns rows into Points of floats), so a
   vertex list is a list of Points, a list of rows, a 2-D array (= the list of its rows)
   or a mixture.  [Vertex] keeps the form, [as_point] is the value the code computes
   with; ints and floats are the same rationals.

   The code does NOT normalise the list (no closing-vertex removal, no orientation
   test, no padding removal); the theorems below show that none is needed:
   [strop_decomposition_all] - grid lines, cell matrix, instances, rectangles - is the
   same for a list, its reversal (other orientation), every cyclic shift (other start
   vertex) and the list closed by repeating its first vertex.  In general it depends
   only on the set of vertices and on the parity test ([decomposition_ext]).  A change
   that drops a vertex which is a real corner changes the set of coordinates or the
   parity, and is outside these equalities: it is the correspondence that detects it. *)
From Coq Require Import List Bool Arith Lia Permutation.
From FrameModel Require Import Num.QcTac Strop.Strop Strop.Polygon Strop.PolygonFacts.
Import ListNotations.
Open Scope Qc_scope.

(* ====================== 1. forms ====================== *)
Inductive Vertex : Type :=
| VPoint (x y : Qc)        (* a frame.geometry.Point *)
| VRow (x y : Qc).         (* a row of a numpy array *)

(* p.x if isinstance(p, Point) else p[0] *)
Definition vx (v : Vertex) : Qc := match v with VPoint x _ => x | VRow x _ => x end.
Definition vy (v : Vertex) : Qc := match v with VPoint _ y => y | VRow _ y => y end.
Definition as_point (v : Vertex) : Pt := (vx v, vy v).

Definition decomposition_of_forms (vs : list Vertex) : option (list (list Rect4)) :=
  strop_decomposition_all (map as_point vs).

Theorem forms_irrelevant vs vs' : map as_point vs = map as_point vs' ->
  decomposition_of_forms vs = decomposition_of_forms vs'.
Proof. unfold decomposition_of_forms. intros ->. reflexivity. Qed.

(* ====================== 2. sorted(set(...)) depends on the set only ====================== *)
Lemma insert_u_In y x l : In y (insert_u x l) <-> y = x \/ In y l.
Proof.
  induction l as [|a l IH]; cbn [insert_u].
  - cbn. intuition.
  - destruct (Qcltb x a) eqn:E1.
    + cbn. intuition.
    + destruct (Qceqb x a) eqn:E2.
      * apply Qceqb_true in E2. subst a. cbn. intuition.
      * cbn [In]. rewrite IH. intuition.
Qed.

Lemma sort_u_In y l : In y (sort_u l) <-> In y l.
Proof.
  induction l as [|a l IH]; cbn [sort_u fold_right]; [reflexivity|].
  change (fold_right insert_u [] l) with (sort_u l). rewrite insert_u_In, IH. cbn. intuition.
Qed.

Lemma incr_head_lt a l : incr (a :: l) -> forall x, In x l -> a < x.
Proof.
  revert a. induction l as [|b l IH]; intros a H x Hx; [destruct Hx|].
  pose proof (H 0%nat ltac:(cbn; lia)) as Hab. cbn in Hab.
  destruct Hx as [<-|Hx]; [exact Hab|].
  pose proof (IH b (incr_tail _ _ H) x Hx) as Hbx. qlra.
Qed.

Lemma incr_ext : forall l l', incr l -> incr l' -> (forall x, In x l <-> In x l') -> l = l'.
Proof.
  induction l as [|a l IH]; intros [|b l'] H H' E.
  - reflexivity.
  - exfalso. apply (proj2 (E b)). left; reflexivity.
  - exfalso. apply (proj1 (E a)). left; reflexivity.
  - assert (Hab : a = b).
    { destruct (proj1 (E a) (or_introl eq_refl)) as [Hb|Hin]; [symmetry; exact Hb|].
      destruct (proj2 (E b) (or_introl eq_refl)) as [Ha|Hin']; [exact Ha|].
      pose proof (incr_head_lt b l' H' a Hin). pose proof (incr_head_lt a l H b Hin'). qlra. }
    subst b. f_equal. apply IH; [exact (incr_tail _ _ H)|exact (incr_tail _ _ H')|].
    intros x. split; intros Hx.
    + destruct (proj1 (E x) (or_intror Hx)) as [Hax|Hin]; [|exact Hin].
      subst x. pose proof (incr_head_lt a l H a Hx). qlra.
    + destruct (proj2 (E x) (or_intror Hx)) as [Hax|Hin]; [|exact Hin].
      subst x. pose proof (incr_head_lt a l' H' a Hx). qlra.
Qed.

Theorem sort_u_ext l l' : (forall x, In x l <-> In x l') -> sort_u l = sort_u l'.
Proof.
  intros E. apply incr_ext; [apply sort_u_increasing|apply sort_u_increasing|].
  intros x. rewrite !sort_u_In. apply E.
Qed.

(* ====================== 3. the decomposition depends on the vertex set and the parity test ====================== *)
Definition same_set (vs vs' : list Pt) : Prop := forall p, In p vs <-> In p vs'.

Lemma same_set_map {B} (f : Pt -> B) vs vs' : same_set vs vs' -> forall x, In x (map f vs) <-> In x (map f vs').
Proof.
  intros E x. rewrite !in_map_iff. split; intros (p & Hp & Hin); exists p; (split; [exact Hp|apply E; exact Hin]).
Qed.

Lemma x_coords_ext vs vs' : same_set vs vs' -> x_coords vs = x_coords vs'.
Proof. intros E. unfold x_coords. apply sort_u_ext. apply same_set_map. exact E. Qed.
Lemma y_coords_ext vs vs' : same_set vs vs' -> y_coords vs = y_coords vs'.
Proof. intros E. unfold y_coords. f_equal. apply sort_u_ext. apply same_set_map. exact E. Qed.

Lemma grid_matrix_ext vs vs' : same_set vs vs' -> (forall p, point_inside p vs = point_inside p vs') ->
  grid_matrix vs = grid_matrix vs'.
Proof.
  intros E P. unfold grid_matrix. rewrite (x_coords_ext vs vs' E), (y_coords_ext vs vs' E).
  apply map_ext. intros i. apply map_ext. intros j. apply P.
Qed.

Theorem decomposition_ext vs vs' : same_set vs vs' -> (forall p, point_inside p vs = point_inside p vs') ->
  strop_decomposition_all vs = strop_decomposition_all vs'.
Proof.
  intros E P. unfold strop_decomposition_all.
  rewrite (grid_matrix_ext vs vs' E P), (x_coords_ext vs vs' E), (y_coords_ext vs vs' E). reflexivity.
Qed.

(* ====================== 4. orientation, start vertex, closing vertex ====================== *)
Theorem decomposition_rev vs : strop_decomposition_all (rev vs) = strop_decomposition_all vs.
Proof.
  apply decomposition_ext.
  - intros p. symmetry. apply in_rev.
  - intros p. apply point_inside_rev.
Qed.

Theorem decomposition_shift l1 l2 : strop_decomposition_all (l2 ++ l1) = strop_decomposition_all (l1 ++ l2).
Proof.
  apply decomposition_ext.
  - intros p. rewrite !in_app_iff. tauto.
  - intros p. apply point_inside_shift.
Qed.

Lemma crosses_degenerate p a : crosses p a a = false.
Proof.
  destruct p as [px py], a as [x y]. unfold crosses.
  destruct (Qcleb y py) eqn:A, (Qcltb py y) eqn:B; cbn; try reflexivity.
  qb2p. exfalso. qlra.
Qed.

Lemma point_inside_closed p v0 t : point_inside p ((v0 :: t) ++ [v0]) = point_inside p (v0 :: t).
Proof.
  rewrite !point_inside_par. cbn [app]. rewrite (edges_chain v0 (t ++ [v0])), (edges_chain v0 t).
  rewrite (chain_app (t ++ [v0]) v0 [v0]). rewrite last_last. rewrite par_app.
  cbn [chain par]. unfold tog. cbn [fst snd]. rewrite crosses_degenerate.
  destruct (par p (chain v0 (t ++ [v0]))); reflexivity.
Qed.

(* the list closed by repeating its first vertex (FloorSet lists polygons that way) *)
Theorem decomposition_closed v0 t :
  strop_decomposition_all ((v0 :: t) ++ [v0]) = strop_decomposition_all (v0 :: t).
Proof.
  apply decomposition_ext.
  - intros p. rewrite in_app_iff. cbn. tauto.
  - intros p. apply point_inside_closed.
Qed.

(* all three at once, in every form: reversal, cyclic shift and closure of the same corners *)
Theorem decomposition_forms_orbit (l1 l2 : list Vertex) :
  decomposition_of_forms (rev (l1 ++ l2)) = decomposition_of_forms (l1 ++ l2) /\
  decomposition_of_forms (l2 ++ l1) = decomposition_of_forms (l1 ++ l2).
Proof.
  unfold decomposition_of_forms. split.
  - rewrite map_rev. apply decomposition_rev.
  - rewrite !map_app. apply decomposition_shift.
Qed.

(* worked example: the L of PolygonFacts listed clockwise from another corner, closed, as array rows *)
Example forms_ex :
  decomposition_of_forms
    [VRow (qc 1 1) (qc 5 2); VRow (qc 1 1) (qc 1 1); VRow (qc 2 1) (qc 1 1); VPoint (qc 2 1) 0;
     VPoint 0 0; VRow 0 (qc 5 2); VRow (qc 1 1) (qc 5 2)] = strop_decomposition_all L_example.
Proof. vm_compute. reflexivity. Qed.
