(* C15 - soundness of the Strop model for matrices of ANY size, and the cell count.

   strop_sound : every instance offered for a well-formed matrix is a decomposition.
   Structure of the proof:
     1. [counting]     the cell-count validity test (num_cells = trunk area + the four
                       histogram sums), together with the empty corners and a full trunk,
                       forces every walked segment to consist of its leading run of ones
                       only (9-block split of the grid, one double-sum swap);
     2. [KN..KE]       hence a cell beside the trunk is true iff it lies within the run;
     3. [groups_count] the run-length walk over a histogram covers index j exactly once
                       when the histogram is non-zero there, with that value;
     4. [cN_spec..]    cover count of each side's rectangles; [build_decomp] assembles;
     5. [trunks_full]  every entry of the (filtered) interval table is a full rectangle
                       of ones inside the grid (invariant of the table fill).
   strop_rects_area / decomp_area : the rectangles of any decomposition have as many
   cells as the matrix has ones. *)
From Coq Require Import List Bool Arith Lia.
From FrameModel Require Import Strop.Strop Strop.Spec Strop.StropBase.
Import ListNotations.

(* ---------- sums ---------- *)
Definition b2n (b : bool) : nat := if b then 1 else 0.
Definition sumf (f : nat -> nat) (L : list nat) : nat := sum (map f L).

Lemma sum_app a b : sum (a ++ b) = sum a + sum b.
Proof. induction a; cbn; [reflexivity|]. unfold sum in *. cbn. rewrite IHa. lia. Qed.
Lemma sumf_app f a b : sumf f (a ++ b) = sumf f a + sumf f b.
Proof. unfold sumf. rewrite map_app. apply sum_app. Qed.
Lemma sumf_cons f a L : sumf f (a :: L) = f a + sumf f L.
Proof. reflexivity. Qed.
Lemma sumf_add f g L : sumf (fun j => f j + g j) L = sumf f L + sumf g L.
Proof. induction L; [reflexivity|]. rewrite !sumf_cons, IHL. lia. Qed.
Lemma sumf_ext f g L : (forall x, In x L -> f x = g x) -> sumf f L = sumf g L.
Proof.
  induction L; intros H; [reflexivity|]. rewrite !sumf_cons, IHL, (H a); auto.
  - left; reflexivity.
  - intros x Hx. apply H. right; assumption.
Qed.
Lemma sumf_zero f L : (forall x, In x L -> f x = 0) -> sumf f L = 0.
Proof.
  induction L; intros H; [reflexivity|]. rewrite sumf_cons, IHL, (H a); auto.
  - left; reflexivity.
  - intros x Hx. apply H. right; assumption.
Qed.
Lemma sumf_const c L : sumf (fun _ => c) L = c * length L.
Proof. induction L; cbn [length]; [unfold sumf; cbn; lia|]. rewrite sumf_cons, IHL. lia. Qed.
Lemma sumf_swap (f : nat -> nat -> nat) L1 L2 :
  sumf (fun i => sumf (fun j => f i j) L2) L1 = sumf (fun j => sumf (fun i => f i j) L1) L2.
Proof.
  induction L1.
  - unfold sumf at 1. cbn. symmetry. apply sumf_zero. reflexivity.
  - rewrite sumf_cons, IHL1, <- sumf_add. apply sumf_ext. intros. rewrite sumf_cons. reflexivity.
Qed.
Lemma sumf_le f g L : (forall x, In x L -> f x <= g x) -> sumf f L <= sumf g L.
Proof.
  induction L; intros H; [unfold sumf; cbn; lia|]. rewrite !sumf_cons.
  assert (f a <= g a) by (apply H; left; reflexivity).
  assert (sumf f L <= sumf g L) by (apply IHL; intros; apply H; right; assumption). lia.
Qed.
Lemma sumf_le_eq f g L : (forall x, In x L -> f x <= g x) -> sumf f L = sumf g L ->
  forall x, In x L -> f x = g x.
Proof.
  induction L; intros H E x Hx; [destruct Hx|]. rewrite !sumf_cons in E.
  assert (f a <= g a) by (apply H; left; reflexivity).
  assert (sumf f L <= sumf g L) by (apply sumf_le; intros; apply H; right; assumption).
  destruct Hx as [<-|Hx]; [lia|]. apply IHL; auto; [|lia]. intros; apply H; right; assumption.
Qed.
Lemma sum_map_seq {A} (f : A -> nat) (d : A) l :
  sum (map f l) = sumf (fun i => f (nth i l d)) (seq 0 (length l)).
Proof.
  induction l; [reflexivity|]. cbn [length seq map]. rewrite <- seq_shift.
  unfold sumf in *. cbn [map]. rewrite map_map. cbn. unfold sum in *. cbn. rewrite IHl. reflexivity.
Qed.

(* ---------- counting in boolean lists ---------- *)
Lemma nth_skipn' {A} (l : list A) s k d : nth k (skipn s l) d = nth (s + k) l d.
Proof.
  revert l. induction s; intros l; [reflexivity|]. destruct l; cbn; [destruct k; reflexivity|apply IHs].
Qed.
Lemma count_true_cons b l : count_true (b :: l) = b2n b + count_true l.
Proof. unfold count_true. cbn. destruct b; reflexivity. Qed.
Lemma count_true_app a b : count_true (a ++ b) = count_true a + count_true b.
Proof. unfold count_true. rewrite filter_app, app_length. reflexivity. Qed.
Lemma count_true_rev l : count_true (rev l) = count_true l.
Proof.
  induction l; [reflexivity|]. cbn [rev]. rewrite count_true_app, !count_true_cons, IHl.
  unfold count_true at 2. cbn. lia.
Qed.
Lemma skipn_step {A} (l : list A) s d :
  match skipn s l with
  | [] => skipn (S s) l = [] /\ nth s l d = d
  | b :: t => skipn (S s) l = t /\ nth s l d = b
  end.
Proof.
  revert l. induction s; intros l.
  - destruct l; cbn; auto.
  - destruct l; [cbn; auto|]. specialize (IHs l). cbn [skipn nth]. exact IHs.
Qed.
Lemma count_seq l s k :
  sumf (fun i => b2n (nth i l false)) (seq s k) = count_true (firstn k (skipn s l)).
Proof.
  revert s. induction k; intros s; [reflexivity|]. cbn [seq]. rewrite sumf_cons, IHk.
  pose proof (skipn_step l s false) as H.
  destruct (skipn s l) as [|b t]; destruct H as [H0 H]; rewrite H, H0.
  - cbn. rewrite firstn_nil. reflexivity.
  - cbn [firstn]. rewrite count_true_cons. reflexivity.
Qed.
Lemma run_le_count l : run_len l <= count_true l.
Proof. induction l as [|[|] t IH]; [cbn; lia| |cbn; lia]. rewrite count_true_cons. cbn. lia. Qed.
Lemma run_le_length l : run_len l <= length l.
Proof. induction l as [|[|] t IH]; cbn; lia. Qed.
Lemma run_true l x : x < run_len l -> nth x l false = true.
Proof.
  revert x. induction l as [|[|] t IH]; cbn; intros x H; try lia. destruct x; [reflexivity|apply IH; lia].
Qed.
Lemma run_eq_count l x : run_len l = count_true l -> nth x l false = true -> x < run_len l.
Proof.
  revert x. induction l as [|[|] t IH]; intros x E H.
  - destruct x; discriminate.
  - rewrite count_true_cons in E. cbn in E. destruct x; [cbn; lia|]. cbn in H. cbn.
    assert (x < run_len t) by (apply IH; [lia|assumption]). lia.
  - exfalso. rewrite count_true_cons in E. cbn in E.
    assert (Hc : 1 <= count_true t).
    { destruct x; [discriminate|]. cbn in H. clear - H. revert x H.
      induction t as [|b t IH]; intros x H; [destruct x; discriminate|].
      rewrite count_true_cons. destruct x; cbn in H; [subst; cbn; lia|]. specialize (IH x H). lia. }
    lia.
Qed.

(* ---------- matrix access ---------- *)
Lemma nth_column M i j : nth i (column M j) false = cell M i j.
Proof.
  unfold column, cell. revert i. induction M as [|row M IH]; intros i.
  - destruct i; destruct j; reflexivity.
  - destruct i; [reflexivity|]. cbn. apply IH.
Qed.

Definition g (M : BoolMatrix) (i j : nat) : nat := b2n (cell M i j).
(* cells of the block rows R x columns C' *)
Definition blk (M : BoolMatrix) (R C' : list nat) : nat := sumf (fun i => sumf (fun j => g M i j) C') R.

Lemma blk_app_r M R1 R2 C' : blk M (R1 ++ R2) C' = blk M R1 C' + blk M R2 C'.
Proof. apply sumf_app. Qed.
Lemma blk_app_c M R C1 C2 : blk M R (C1 ++ C2) = blk M R C1 + blk M R C2.
Proof.
  unfold blk. rewrite <- sumf_add. apply sumf_ext. intros. apply sumf_app.
Qed.
Lemma blk_swap M R C' : blk M R C' = sumf (fun j => sumf (fun i => g M i j) R) C'.
Proof. apply sumf_swap. Qed.

Lemma fold_sum l : fold_right (fun r acc => count_true r + acc) 0 l = sum (map count_true l).
Proof. induction l; [reflexivity|]. cbn. rewrite IHl. reflexivity. Qed.

Lemma wf_rows M : wf_matrix M = true -> forall i, i < nrows M -> length (nth i M []) = ncols M.
Proof.
  unfold wf_matrix. intros H i Hi. apply andb_true_iff in H. destruct H as [_ H].
  rewrite forallb_forall in H. apply Nat.eqb_eq. apply H. apply nth_In. exact Hi.
Qed.

Lemma num_cells_blk M : wf_matrix M = true ->
  num_cells M = blk M (seq 0 (nrows M)) (seq 0 (ncols M)).
Proof.
  intros W. unfold num_cells. rewrite fold_sum, (sum_map_seq count_true [] M).
  unfold blk. apply sumf_ext. intros i Hi. apply in_seq in Hi.
  unfold g, cell. rewrite count_seq. cbn [skipn].
  assert (Hl : length (nth i M []) = ncols M).
  { apply (wf_rows M W). unfold nrows in *. lia. }
  rewrite <- Hl. rewrite firstn_all. reflexivity.
Qed.

Lemma seq_split3 n a b : a <= b -> b < n ->
  seq 0 n = seq 0 a ++ seq a (S b - a) ++ seq (S b) (n - S b).
Proof.
  intros H1 H2. replace n with (a + ((S b - a) + (n - S b))) at 1 by lia.
  rewrite seq_app, seq_app. cbn [Nat.add]. replace (a + (S b - a)) with (S b) by lia. reflexivity.
Qed.

Lemma any_cell_false M r0 rn c0 cn : any_cell M r0 rn c0 cn = false ->
  forall i j, In i (seq r0 rn) -> In j (seq c0 cn) -> cell M i j = false.
Proof.
  unfold any_cell. intros H i j Hi Hj. destruct (cell M i j) eqn:E; [|reflexivity].
  assert (X : existsb (fun i => existsb (fun j => cell M i j) (seq c0 cn)) (seq r0 rn) = true).
  { apply existsb_exists. exists i. split; [assumption|]. apply existsb_exists. exists j. auto. }
  congruence.
Qed.
Lemma blk_zero M R C' : (forall i j, In i R -> In j C' -> cell M i j = false) -> blk M R C' = 0.
Proof.
  intros H. apply sumf_zero. intros i Hi. apply sumf_zero. intros j Hj. unfold g. rewrite H; auto.
Qed.
Lemma blk_full M R C' : (forall i j, In i R -> In j C' -> cell M i j = true) ->
  blk M R C' = length R * length C'.
Proof.
  intros H. unfold blk. rewrite (sumf_ext _ (fun _ => length C') R).
  - rewrite sumf_const. lia.
  - intros i Hi. rewrite (sumf_ext _ (fun _ => 1) C'); [rewrite sumf_const; lia|].
    intros j Hj. unfold g. rewrite H; auto.
Qed.

Lemma length_column M j : length (column M j) = nrows M.
Proof. unfold column. apply map_length. Qed.

(* the trunk facts that soundness needs *)
Definition trunk_full (M : BoolMatrix) (t : SRect) : Prop :=
  rect_ok (nrows M) (ncols M) t /\
  forall i j, rlo t <= i <= rhi t -> clo t <= j <= chi t -> cell M i j = true.

(* segments walked by the four histograms *)
Definition segN (M : BoolMatrix) (t : SRect) (j : nat) : list bool := rev (firstn (rlo t) (column M j)).
Definition segS (M : BoolMatrix) (t : SRect) (j : nat) : list bool := skipn (S (rhi t)) (column M j).
Definition segW (M : BoolMatrix) (t : SRect) (i : nat) : list bool := rev (firstn (clo t) (nth i M [])).
Definition segE (M : BoolMatrix) (t : SRect) (i : nat) : list bool := skipn (S (chi t)) (nth i M []).

Lemma counting M t : wf_matrix M = true -> trunk_full M t -> empty_corners M t = true ->
  valid M t = true ->
  (forall j, clo t <= j <= chi t -> run_len (segN M t j) = count_true (segN M t j)) /\
  (forall j, clo t <= j <= chi t -> run_len (segS M t j) = count_true (segS M t j)) /\
  (forall i, rlo t <= i <= rhi t -> run_len (segW M t i) = count_true (segW M t i)) /\
  (forall i, rlo t <= i <= rhi t -> run_len (segE M t i) = count_true (segE M t i)).
Proof.
  intros W [(T1 & T2 & T3 & T4) TF] EC V.
  unfold valid in V. apply Nat.eqb_eq in V. rewrite (num_cells_blk M W) in V.
  rewrite (seq_split3 (nrows M) (rlo t) (rhi t) T1 T2) in V.
  rewrite !blk_app_r in V.
  rewrite (seq_split3 (ncols M) (clo t) (chi t) T3 T4) in V.
  rewrite !blk_app_c in V.
  unfold empty_corners in EC. apply negb_true_iff in EC.
  apply orb_false_iff in EC. destruct EC as [EC E4].
  apply orb_false_iff in EC. destruct EC as [EC E3].
  apply orb_false_iff in EC. destruct EC as [E1 E2].
  rewrite (blk_zero M _ _ (any_cell_false M _ _ _ _ E1)) in V.
  rewrite (blk_zero M _ _ (any_cell_false M _ _ _ _ E2)) in V.
  rewrite (blk_zero M _ _ (any_cell_false M _ _ _ _ E3)) in V.
  rewrite (blk_zero M _ _ (any_cell_false M _ _ _ _ E4)) in V.
  rewrite (blk_full M (seq (rlo t) (S (rhi t) - rlo t)) (seq (clo t) (S (chi t) - clo t))) in V.
  2:{ intros i j Hi Hj. apply in_seq in Hi. apply in_seq in Hj. apply TF; lia. }
  rewrite !seq_length in V.
  unfold total, area in V.
  (* north *)
  assert (BN : blk M (seq 0 (rlo t)) (seq (clo t) (S (chi t) - clo t)) =
               sumf (fun j => count_true (segN M t j)) (seq (clo t) (S (chi t) - clo t))).
  { rewrite blk_swap. apply sumf_ext. intros j _. unfold segN. rewrite count_true_rev.
    pose proof (count_seq (column M j) 0 (rlo t)) as Q. cbn [skipn] in Q. rewrite <- Q. apply sumf_ext. intros i _. unfold g.
    rewrite nth_column. reflexivity. }
  assert (BS : blk M (seq (S (rhi t)) (nrows M - S (rhi t))) (seq (clo t) (S (chi t) - clo t)) =
               sumf (fun j => count_true (segS M t j)) (seq (clo t) (S (chi t) - clo t))).
  { rewrite blk_swap. apply sumf_ext. intros j _. unfold segS.
    rewrite <- (firstn_all (skipn (S (rhi t)) (column M j))), skipn_length, length_column.
    rewrite <- (count_seq (column M j) (S (rhi t)) (nrows M - S (rhi t))). apply sumf_ext. intros i _.
    unfold g. rewrite nth_column. reflexivity. }
  assert (BW : blk M (seq (rlo t) (S (rhi t) - rlo t)) (seq 0 (clo t)) =
               sumf (fun i => count_true (segW M t i)) (seq (rlo t) (S (rhi t) - rlo t))).
  { unfold blk. apply sumf_ext. intros i _. unfold segW. rewrite count_true_rev.
    pose proof (count_seq (nth i M []) 0 (clo t)) as Q. cbn [skipn] in Q. rewrite <- Q. reflexivity. }
  assert (BE : blk M (seq (rlo t) (S (rhi t) - rlo t)) (seq (S (chi t)) (ncols M - S (chi t))) =
               sumf (fun i => count_true (segE M t i)) (seq (rlo t) (S (rhi t) - rlo t))).
  { unfold blk. apply sumf_ext. intros i Hi. apply in_seq in Hi. unfold segE.
    rewrite <- (firstn_all (skipn (S (chi t)) (nth i M []))), skipn_length.
    rewrite (wf_rows M W i) by lia.
    rewrite <- (count_seq (nth i M []) (S (chi t)) (ncols M - S (chi t))). reflexivity. }
  rewrite BN, BS, BW, BE in V. clear BN BS BW BE.
  change (sum (h_north M t)) with (sumf (fun j => run_len (segN M t j)) (seq (clo t) (S (chi t) - clo t))) in V.
  change (sum (h_south M t)) with (sumf (fun j => run_len (segS M t j)) (seq (clo t) (S (chi t) - clo t))) in V.
  change (sum (h_west M t)) with (sumf (fun i => run_len (segW M t i)) (seq (rlo t) (S (rhi t) - rlo t))) in V.
  change (sum (h_east M t)) with (sumf (fun i => run_len (segE M t i)) (seq (rlo t) (S (rhi t) - rlo t))) in V.
  pose proof (sumf_le (fun j => run_len (segN M t j)) (fun j => count_true (segN M t j))
                (seq (clo t) (S (chi t) - clo t)) (fun j _ => run_le_count _)) as LN.
  pose proof (sumf_le (fun j => run_len (segS M t j)) (fun j => count_true (segS M t j))
                (seq (clo t) (S (chi t) - clo t)) (fun j _ => run_le_count _)) as LS.
  pose proof (sumf_le (fun i => run_len (segW M t i)) (fun i => count_true (segW M t i))
                (seq (rlo t) (S (rhi t) - rlo t)) (fun j _ => run_le_count _)) as LW.
  pose proof (sumf_le (fun i => run_len (segE M t i)) (fun i => count_true (segE M t i))
                (seq (rlo t) (S (rhi t) - rlo t)) (fun j _ => run_le_count _)) as LE.
  repeat split; intros x Hx.
  - apply (sumf_le_eq (fun j => run_len (segN M t j)) (fun j => count_true (segN M t j))
             (seq (clo t) (S (chi t) - clo t)) (fun j _ => run_le_count _)); [lia|apply in_seq; lia].
  - apply (sumf_le_eq (fun j => run_len (segS M t j)) (fun j => count_true (segS M t j))
             (seq (clo t) (S (chi t) - clo t)) (fun j _ => run_le_count _)); [lia|apply in_seq; lia].
  - apply (sumf_le_eq (fun i => run_len (segW M t i)) (fun i => count_true (segW M t i))
             (seq (rlo t) (S (rhi t) - rlo t)) (fun j _ => run_le_count _)); [lia|apply in_seq; lia].
  - apply (sumf_le_eq (fun i => run_len (segE M t i)) (fun i => count_true (segE M t i))
             (seq (rlo t) (S (rhi t) - rlo t)) (fun j _ => run_le_count _)); [lia|apply in_seq; lia].
Qed.

Lemma nth_firstn' {A} (l : list A) n i d : i < n -> nth i (firstn n l) d = nth i l d.
Proof.
  revert l i. induction n; intros l i H; [lia|]. destruct l; [destruct i; reflexivity|].
  destruct i; [reflexivity|]. cbn. apply IHn. lia.
Qed.

(* position x of rev (firstn s l), for s <= length l, is position s-1-x of l *)
Lemma nth_rev_firstn (l : list bool) s x : s <= length l -> x < s ->
  nth x (rev (firstn s l)) false = nth (s - S x) l false.
Proof.
  intros H1 H2. assert (L : length (firstn s l) = s) by (rewrite firstn_length; lia).
  rewrite rev_nth by lia. rewrite L. apply nth_firstn'. lia.
Qed.

Section Sound.
  Variable M : BoolMatrix.
  Variable t : SRect.
  Hypothesis W : wf_matrix M = true.
  Hypothesis TF : trunk_full M t.
  Hypothesis EC : empty_corners M t = true.
  Hypothesis V : valid M t = true.

  Definition hN j := run_len (segN M t j).
  Definition hS j := run_len (segS M t j).
  Definition hW i := run_len (segW M t i).
  Definition hE i := run_len (segE M t i).

  Lemma hN_le j : hN j <= rlo t.
  Proof. unfold hN, segN. etransitivity; [apply run_le_length|]. rewrite rev_length, firstn_length. lia. Qed.
  Lemma hW_le i : hW i <= clo t.
  Proof. unfold hW, segW. etransitivity; [apply run_le_length|]. rewrite rev_length, firstn_length. lia. Qed.

  Lemma KN i j : i < rlo t -> clo t <= j <= chi t -> (cell M i j = true <-> rlo t - i <= hN j).
  Proof.
    intros Hi Hj. destruct TF as [(T1 & T2 & T3 & T4) _].
    destruct (counting M t W TF EC V) as (CN & _).
    assert (E : nth (rlo t - S i) (segN M t j) false = cell M i j).
    { unfold segN. rewrite nth_rev_firstn by (rewrite ?length_column; lia).
      rewrite nth_column. f_equal. lia. }
    split; intros H.
    - assert (rlo t - S i < hN j); [|lia]. apply run_eq_count; [apply CN; lia|]. rewrite E. exact H.
    - rewrite <- E. apply run_true. unfold hN in H. lia.
  Qed.
  Lemma KS i j : rhi t < i -> clo t <= j <= chi t -> (cell M i j = true <-> i - rhi t <= hS j).
  Proof.
    intros Hi Hj. destruct (counting M t W TF EC V) as (_ & CS & _).
    assert (E : nth (i - S (rhi t)) (segS M t j) false = cell M i j).
    { unfold segS. rewrite nth_skipn', nth_column. f_equal. lia. }
    split; intros H.
    - assert (i - S (rhi t) < hS j); [|lia]. apply run_eq_count; [apply CS; lia|]. rewrite E. exact H.
    - rewrite <- E. apply run_true. unfold hS in H. lia.
  Qed.
  Lemma KW i j : j < clo t -> rlo t <= i <= rhi t -> (cell M i j = true <-> clo t - j <= hW i).
  Proof.
    intros Hj Hi. destruct TF as [(T1 & T2 & T3 & T4) _].
    destruct (counting M t W TF EC V) as (_ & _ & CW & _).
    assert (E : nth (clo t - S j) (segW M t i) false = cell M i j).
    { unfold segW. rewrite nth_rev_firstn by (rewrite ?(wf_rows M W); lia).
      unfold cell. f_equal. lia. }
    split; intros H.
    - assert (clo t - S j < hW i); [|lia]. apply run_eq_count; [apply CW; lia|]. rewrite E. exact H.
    - rewrite <- E. apply run_true. unfold hW in H. lia.
  Qed.
  Lemma KE i j : chi t < j -> rlo t <= i <= rhi t -> (cell M i j = true <-> j - chi t <= hE i).
  Proof.
    intros Hj Hi. destruct (counting M t W TF EC V) as (_ & _ & _ & CE).
    assert (E : nth (j - S (chi t)) (segE M t i) false = cell M i j).
    { unfold segE. rewrite nth_skipn'. unfold cell. f_equal. lia. }
    split; intros H.
    - assert (j - S (chi t) < hE i); [|lia]. apply run_eq_count; [apply CE; lia|]. rewrite E. exact H.
    - rewrite <- E. apply run_true. unfold hE in H. lia.
  Qed.

  Lemma corner_false i j : i < nrows M -> j < ncols M ->
    (i < rlo t \/ rhi t < i) -> (j < clo t \/ chi t < j) -> cell M i j = false.
  Proof.
    intros Hi Hj Hr Hc. pose proof EC as E. unfold empty_corners in E. apply negb_true_iff in E.
    apply orb_false_iff in E. destruct E as [E E4].
    apply orb_false_iff in E. destruct E as [E E3].
    apply orb_false_iff in E. destruct E as [E1 E2].
    destruct Hr, Hc.
    - apply (any_cell_false M _ _ _ _ E1); apply in_seq; lia.
    - apply (any_cell_false M _ _ _ _ E2); apply in_seq; lia.
    - apply (any_cell_false M _ _ _ _ E3); apply in_seq; lia.
    - apply (any_cell_false M _ _ _ _ E4); apply in_seq; lia.
  Qed.
End Sound.

(* ---------- run-length groups ---------- *)
Definition gsel (P : nat -> bool) (j : nat) (gr : nat * nat * nat) : bool :=
  let '(a, b, v) := gr in (a <=? j) && (j <=? b) && P v.
Definition cntg (P : nat -> bool) (j : nat) (gs : list (nat * nat * nat)) : nat :=
  length (filter (gsel P j) gs).
(* value of the sequence "v on [init,last], then rest" at index j *)
Definition hv (init v last : nat) (rest : list nat) (j : nat) : nat :=
  if j <? init then 0 else if j <=? last then v else nth (j - S last) rest 0.
Definition pick (P : nat -> bool) (x : nat) : nat := b2n (negb (x =? 0) && P x).

Lemma cntg_app P j a b : cntg P j (a ++ b) = cntg P j a + cntg P j b.
Proof. unfold cntg. rewrite filter_app, app_length. reflexivity. Qed.

Lemma groups_count P j : forall rest init v last, init <= last ->
  cntg P j (groups init v last rest) = pick P (hv init v last rest j).
Proof.
  induction rest as [|x rest IH]; intros init v last Hil.
  - cbn [groups]. unfold hv, pick.
    destruct (j <? init) eqn:E1; [|destruct (j <=? last) eqn:E2]; b2p.
    + destruct (v =? 0); [reflexivity|]. unfold cntg. cbn.
      replace (init <=? j) with false by (symmetry; apply Nat.leb_gt; lia). reflexivity.
    + destruct (v =? 0); [reflexivity|]. unfold cntg. cbn.
      replace (init <=? j) with true by (symmetry; apply Nat.leb_le; lia).
      replace (j <=? last) with true by (symmetry; apply Nat.leb_le; lia).
      cbn. destruct (P v); reflexivity.
    + replace (nth (j - S last) [] 0) with 0 by (destruct (j - S last); reflexivity). cbn.
      destruct (v =? 0); [reflexivity|]. unfold cntg. cbn.
      replace (j <=? last) with false by (symmetry; apply Nat.leb_gt; lia).
      rewrite andb_false_r. reflexivity.
  - cbn [groups]. destruct (x =? v) eqn:Exv.
    + b2p. subst x. rewrite IH by lia. f_equal. unfold hv.
      destruct (j <? init) eqn:E1; [reflexivity|]. b2p.
      destruct (j <=? last) eqn:E2; b2p.
      * replace (j <=? S last) with true by (symmetry; apply Nat.leb_le; lia). reflexivity.
      * destruct (j <=? S last) eqn:E3; b2p.
        -- replace (j - S last) with 0 by lia. reflexivity.
        -- replace (j - S last) with (S (j - S (S last))) by lia. reflexivity.
    + b2p. rewrite cntg_app, IH by lia. unfold hv, pick.
      destruct (j <? init) eqn:E1; [|destruct (j <=? last) eqn:E2]; b2p.
      * replace (j <? S last) with true by (symmetry; apply Nat.ltb_lt; lia). cbn.
        destruct (v =? 0); [reflexivity|]. unfold cntg. cbn.
        replace (init <=? j) with false by (symmetry; apply Nat.leb_gt; lia). reflexivity.
      * replace (j <? S last) with true by (symmetry; apply Nat.ltb_lt; lia). cbn.
        destruct (v =? 0); [reflexivity|]. unfold cntg. cbn.
        replace (init <=? j) with true by (symmetry; apply Nat.leb_le; lia).
        replace (j <=? last) with true by (symmetry; apply Nat.leb_le; lia).
        cbn. destruct (P v); reflexivity.
      * replace (j <? S last) with false by (symmetry; apply Nat.ltb_ge; lia).
        assert (Z : cntg P j (if v =? 0 then [] else [(init, last, v)]) = 0).
        { destruct (v =? 0); [reflexivity|]. unfold cntg. cbn.
          replace (j <=? last) with false by (symmetry; apply Nat.leb_gt; lia).
          rewrite andb_false_r. reflexivity. }
        rewrite Z. cbn [Nat.add].
        destruct (j <=? S last) eqn:E3; b2p.
        -- replace (j - S last) with 0 by lia. reflexivity.
        -- replace (j - S last) with (S (j - S (S last))) by lia. reflexivity.
Qed.

(* histogram given as a function on [lo, lo+n) *)
Lemma nth_map_seq (f : nat -> nat) lo n k : k < n -> nth k (map f (seq lo n)) 0 = f (lo + k).
Proof.
  revert lo k. induction n; intros lo k H; [lia|]. destruct k; cbn; [f_equal; lia|].
  rewrite IHn by lia. f_equal. lia.
Qed.
Lemma nth_map_seq_out (f : nat -> nat) lo n k : n <= k -> nth k (map f (seq lo n)) 0 = 0.
Proof. intros H. apply nth_overflow. rewrite map_length, seq_length. exact H. Qed.

Lemma runs_count P j f lo n :
  cntg P j (runs lo (map f (seq lo n))) =
  if (lo <=? j) && (j <? lo + n) then pick P (f j) else 0.
Proof.
  destruct n.
  - cbn [seq map runs]. replace ((lo <=? j) && (j <? lo + 0)) with false; [reflexivity|].
    symmetry. apply andb_false_iff. destruct (lo <=? j) eqn:E; [right|left; reflexivity]. b2p.
    apply Nat.ltb_ge. lia.
  - cbn [seq map runs]. rewrite groups_count by lia. unfold hv.
    destruct (j <? lo) eqn:E1; b2p.
    + replace (lo <=? j) with false by (symmetry; apply Nat.leb_gt; lia). reflexivity.
    + replace (lo <=? j) with true by (symmetry; apply Nat.leb_le; lia). cbn [andb].
      destruct (j <=? lo) eqn:E2; b2p.
      * replace (j <? lo + S n) with true by (symmetry; apply Nat.ltb_lt; lia).
        replace j with lo by lia. reflexivity.
      * destruct (j <? lo + S n) eqn:E3; b2p.
        -- rewrite nth_map_seq by lia. replace (S lo + (j - S lo)) with j by lia. reflexivity.
        -- rewrite nth_map_seq_out by lia. reflexivity.
Qed.

(* cover counts of mapped groups *)
Lemma cover_map (mk : nat * nat * nat -> SRect) gs i j :
  cover_count (map mk gs) i j = length (filter (fun gr => in_rectb (mk gr) i j) gs).
Proof.
  unfold cover_count. induction gs; [reflexivity|]. cbn. destruct (in_rectb (mk a) i j); cbn; rewrite IHgs; reflexivity.
Qed.
Lemma cover_app a b i j : cover_count (a ++ b) i j = cover_count a i j + cover_count b i j.
Proof. unfold cover_count. rewrite filter_app, app_length. reflexivity. Qed.

Ltac bd :=
  repeat match goal with
  | |- context [?a <=? ?b] => destruct (a <=? b) eqn:?; b2p
  | |- context [?a <? ?b] => destruct (a <? b) eqn:?; b2p
  | |- context [?a =? ?b] => destruct (a =? b) eqn:?; b2p
  end.

Lemma groups_in : forall rest init v last a b v', init <= last ->
  In (a, b, v') (groups init v last rest) ->
  init <= a /\ a <= b /\ b <= last + length rest /\ v' <> 0 /\ (v' = v \/ In v' rest).
Proof.
  induction rest as [|x rest IH]; intros init v last a b v' Hil Hin.
  - cbn in Hin. destruct (v =? 0) eqn:E; [destruct Hin|]. b2p.
    destruct Hin as [Hin|[]]. inversion Hin; subst. cbn. lia.
  - cbn [groups] in Hin. destruct (x =? v) eqn:Exv.
    + b2p. subst x. apply IH in Hin; [|lia]. cbn [length In]. destruct Hin as (A & B & C & D & [E|E]); repeat split; auto; lia.
    + apply in_app_or in Hin. destruct Hin as [Hin|Hin].
      * destruct (v =? 0) eqn:E; [destruct Hin|]. b2p.
        destruct Hin as [Hin|[]]. inversion Hin; subst. cbn [length]. repeat split; auto; lia.
      * apply IH in Hin; [|lia]. cbn [length In]. destruct Hin as (A & B & C & D & [E|E]); repeat split; auto; try lia.
Qed.

Lemma runs_in (f : nat -> nat) lo n a b v :
  In (a, b, v) (runs lo (map f (seq lo n))) ->
  lo <= a /\ a <= b /\ b < lo + n /\ v <> 0 /\ exists j, lo <= j < lo + n /\ v = f j.
Proof.
  destruct n; [intros []|]. cbn [seq map runs]. intros H. apply groups_in in H; [|lia].
  destruct H as (A & B & C & D & E). rewrite map_length, seq_length in C.
  repeat split; auto; try lia.
  destruct E as [E|E].
  - exists lo. split; [lia|assumption].
  - apply in_map_iff in E. destruct E as (j & E1 & E2). apply in_seq in E2. exists j. split; [lia|auto].
Qed.

Section Sound2.
  Variable M : BoolMatrix.
  Variable t : SRect.
  Hypothesis W : wf_matrix M = true.
  Hypothesis TF : trunk_full M t.
  Hypothesis EC : empty_corners M t = true.
  Hypothesis V : valid M t = true.
  Let I := build_instance M t.

  Lemma hS_le j : hS M t j <= nrows M - S (rhi t).
  Proof.
    unfold hS, segS. etransitivity; [apply run_le_length|]. rewrite skipn_length, length_column. lia.
  Qed.
  Lemma hE_le i : i < nrows M -> hE M t i <= ncols M - S (chi t).
  Proof.
    intros Hi. unfold hE, segE. etransitivity; [apply run_le_length|]. rewrite skipn_length, (wf_rows M W i Hi). lia.
  Qed.

  Lemma cN_spec i j :
    (cover_count (north I) i j = 1 /\ clo t <= j <= chi t /\ i < rlo t /\ rlo t - i <= hN M t j) \/
    (cover_count (north I) i j = 0 /\ ~ (clo t <= j <= chi t /\ i < rlo t /\ rlo t - i <= hN M t j)).
  Proof.
    destruct TF as [(T1 & T2 & T3 & T4) _]. pose proof (hN_le M t j) as Hle.
    unfold I, build_instance. cbn [north]. rewrite cover_map.
    rewrite (filter_ext _ (gsel (fun v => (rlo t - v <=? i) && (i <=? rlo t - 1)) j)).
    2:{ intros [[a b] v]. unfold mk_north, gsel, in_rectb. cbn.
        destruct (rlo t - v <=? i), (i <=? rlo t - 1), (a <=? j), (j <=? b); reflexivity. }
    change (length (filter ?f ?l)) with (cntg (fun v => (rlo t - v <=? i) && (i <=? rlo t - 1)) j l).
    unfold h_north. rewrite (runs_count _ j (fun c => hN M t c)). unfold pick. fold (hN M t j).
    generalize dependent (hN M t j). intros x Hle. bd; cbn; lia.
  Qed.
  Lemma cS_spec i j :
    (cover_count (south I) i j = 1 /\ clo t <= j <= chi t /\ rhi t < i /\ i - rhi t <= hS M t j) \/
    (cover_count (south I) i j = 0 /\ ~ (clo t <= j <= chi t /\ rhi t < i /\ i - rhi t <= hS M t j)).
  Proof.
    destruct TF as [(T1 & T2 & T3 & T4) _].
    unfold I, build_instance. cbn [south]. rewrite cover_map.
    rewrite (filter_ext _ (gsel (fun v => (rhi t + 1 <=? i) && (i <=? rhi t + v)) j)).
    2:{ intros [[a b] v]. unfold mk_south, gsel, in_rectb. cbn.
        destruct (rhi t + 1 <=? i), (i <=? rhi t + v), (a <=? j), (j <=? b); reflexivity. }
    change (length (filter ?f ?l)) with (cntg (fun v => (rhi t + 1 <=? i) && (i <=? rhi t + v)) j l).
    unfold h_south. rewrite (runs_count _ j (fun c => hS M t c)). unfold pick.
    generalize (hS M t j). intros x. bd; cbn; lia.
  Qed.
  Lemma cW_spec i j :
    (cover_count (west I) i j = 1 /\ rlo t <= i <= rhi t /\ j < clo t /\ clo t - j <= hW M t i) \/
    (cover_count (west I) i j = 0 /\ ~ (rlo t <= i <= rhi t /\ j < clo t /\ clo t - j <= hW M t i)).
  Proof.
    destruct TF as [(T1 & T2 & T3 & T4) _]. pose proof (hW_le M t i) as Hle.
    unfold I, build_instance. cbn [west]. rewrite cover_map.
    rewrite (filter_ext _ (gsel (fun v => (clo t - v <=? j) && (j <=? clo t - 1)) i)).
    2:{ intros [[a b] v]. unfold mk_west, gsel, in_rectb. cbn.
        destruct (clo t - v <=? j), (j <=? clo t - 1), (a <=? i), (i <=? b); reflexivity. }
    change (length (filter ?f ?l)) with (cntg (fun v => (clo t - v <=? j) && (j <=? clo t - 1)) i l).
    unfold h_west. rewrite (runs_count _ i (fun r => hW M t r)). unfold pick.
    generalize dependent (hW M t i). intros x Hle. bd; cbn; lia.
  Qed.
  Lemma cE_spec i j :
    (cover_count (east I) i j = 1 /\ rlo t <= i <= rhi t /\ chi t < j /\ j - chi t <= hE M t i) \/
    (cover_count (east I) i j = 0 /\ ~ (rlo t <= i <= rhi t /\ chi t < j /\ j - chi t <= hE M t i)).
  Proof.
    destruct TF as [(T1 & T2 & T3 & T4) _].
    unfold I, build_instance. cbn [east]. rewrite cover_map.
    rewrite (filter_ext _ (gsel (fun v => (chi t + 1 <=? j) && (j <=? chi t + v)) i)).
    2:{ intros [[a b] v]. unfold mk_east, gsel, in_rectb. cbn.
        destruct (chi t + 1 <=? j), (j <=? chi t + v), (a <=? i), (i <=? b); reflexivity. }
    change (length (filter ?f ?l)) with (cntg (fun v => (chi t + 1 <=? j) && (j <=? chi t + v)) i l).
    unfold h_east. rewrite (runs_count _ i (fun r => hE M t r)). unfold pick.
    generalize (hE M t i). intros x. bd; cbn; lia.
  Qed.
End Sound2.

Lemma iff_b (b : bool) (X : Prop) : (b = true <-> X) -> (b = true /\ X) \/ (b = false /\ ~ X).
Proof. intros [H1 H2]. destruct b; [left; auto|right; split; [reflexivity|]]. intros HX. specialize (H2 HX). discriminate. Qed.

Lemma cover_cons r rs i j : cover_count (r :: rs) i j = b2n (in_rectb r i j) + cover_count rs i j.
Proof. unfold cover_count. cbn. destruct (in_rectb r i j); reflexivity. Qed.

Theorem build_decomp M t : wf_matrix M = true -> trunk_full M t -> empty_corners M t = true ->
  valid M t = true -> decomp M t (branches (build_instance M t)).
Proof.
  intros W TF EC V. pose proof TF as [(T1 & T2 & T3 & T4) TF'].
  split; [exact (proj1 TF)|]. split.
  - unfold branches. rewrite !Forall_app. unfold build_instance. cbn [north south east west].
    repeat split; apply Forall_forall; intros B HB; apply in_map_iff in HB;
      destruct HB as ([[a b] v] & <- & Hg); apply runs_in in Hg;
      destruct Hg as (G1 & G2 & G3 & G4 & (x & G5 & Ev)).
    + pose proof (hN_le M t x) as H. unfold hN, segN in H. rewrite <- Ev in H. unfold rect_ok, abuts. cbn. lia.
    + pose proof (hS_le M t x) as H. unfold hS, segS in H. rewrite <- Ev in H. unfold rect_ok, abuts. cbn. lia.
    + pose proof (hE_le M t W x ltac:(lia)) as H. unfold hE, segE in H. rewrite <- Ev in H. unfold rect_ok, abuts. cbn. lia.
    + pose proof (hW_le M t x) as H. unfold hW, segW in H. rewrite <- Ev in H. unfold rect_ok, abuts. cbn. lia.
  - intros i j Hi Hj. unfold branches. rewrite cover_cons, !cover_app.
    assert (HT : (b2n (in_rectb t i j) = 1 /\ rlo t <= i <= rhi t /\ clo t <= j <= chi t) \/
                 (b2n (in_rectb t i j) = 0 /\ ~ (rlo t <= i <= rhi t /\ clo t <= j <= chi t))).
    { unfold in_rectb. bd; cbn; lia. }
    pose proof (cN_spec M t TF i j) as HN. pose proof (cS_spec M t TF i j) as HS.
    pose proof (cW_spec M t TF i j) as HW. pose proof (cE_spec M t TF i j) as HE.
    assert (HC : (cell M i j = true /\
                  ((rlo t <= i <= rhi t /\ clo t <= j <= chi t) \/
                   (clo t <= j <= chi t /\ i < rlo t /\ rlo t - i <= hN M t j) \/
                   (clo t <= j <= chi t /\ rhi t < i /\ i - rhi t <= hS M t j) \/
                   (rlo t <= i <= rhi t /\ j < clo t /\ clo t - j <= hW M t i) \/
                   (rlo t <= i <= rhi t /\ chi t < j /\ j - chi t <= hE M t i))) \/
                 (cell M i j = false /\
                  ~ ((rlo t <= i <= rhi t /\ clo t <= j <= chi t) \/
                   (clo t <= j <= chi t /\ i < rlo t /\ rlo t - i <= hN M t j) \/
                   (clo t <= j <= chi t /\ rhi t < i /\ i - rhi t <= hS M t j) \/
                   (rlo t <= i <= rhi t /\ j < clo t /\ clo t - j <= hW M t i) \/
                   (rlo t <= i <= rhi t /\ chi t < j /\ j - chi t <= hE M t i)))).
    { destruct (le_lt_dec (rlo t) i) as [A|A]; destruct (le_lt_dec i (rhi t)) as [B|B];
      destruct (le_lt_dec (clo t) j) as [C|C]; destruct (le_lt_dec j (chi t)) as [D|D];
      try (exfalso; lia).
      - left. split; [apply TF'; lia|lia].
      - destruct (iff_b _ _ (KE M t W TF EC V i j D (conj A B))) as [[H1 H2]|[H1 H2]];
          [left|right]; (split; [assumption|lia]).
      - destruct (iff_b _ _ (KW M t W TF EC V i j C (conj A B))) as [[H1 H2]|[H1 H2]];
          [left|right]; (split; [assumption|lia]).
      - destruct (iff_b _ _ (KS M t W TF EC V i j B (conj C D))) as [[H1 H2]|[H1 H2]];
          [left|right]; (split; [assumption|lia]).
      - right. split; [apply (corner_false M t EC); auto; lia|lia].
      - right. split; [apply (corner_false M t EC); auto; lia|lia].
      - destruct (iff_b _ _ (KN M t W TF EC V i j A (conj C D))) as [[H1 H2]|[H1 H2]];
          [left|right]; (split; [assumption|lia]).
      - right. split; [apply (corner_false M t EC); auto; lia|lia].
      - right. split; [apply (corner_false M t EC); auto; lia|lia]. }
    set (cn := cover_count (north (build_instance M t)) i j) in *.
    set (cs := cover_count (south (build_instance M t)) i j) in *.
    set (ce := cover_count (east (build_instance M t)) i j) in *.
    set (cw := cover_count (west (build_instance M t)) i j) in *.
    set (bt := b2n (in_rectb t i j)) in *.
    set (xn := hN M t j) in *. set (xs := hS M t j) in *.
    set (xw := hW M t i) in *. set (xe := hE M t i) in *.
    clearbody cn cs ce cw bt xn xs xw xe. clear W TF EC V TF' Hi Hj.
    destruct HC as [[-> HQ]|[-> HQ]];
      destruct HT as [[-> HT]|[-> HT]]; destruct HN as [[-> HN]|[-> HN]];
      destruct HS as [[-> HS]|[-> HS]]; destruct HW as [[-> HW]|[-> HW]];
      destruct HE as [[-> HE]|[-> HE]]; lia.
Qed.

(* ---------- the candidate trunks are full rectangles of the grid ---------- *)
Lemma index_of_some b l k : index_of b l = Some k ->
  k < length l /\ nth k l (negb b) = b /\ forall x, x < k -> nth x l b = negb b.
Proof.
  revert k. induction l as [|a l IH]; intros k H; [discriminate|]. cbn in H.
  destruct (Bool.eqb a b) eqn:E.
  - inversion H; subst. apply eqb_prop in E. subst. cbn. repeat split; [lia|]. intros; lia.
  - destruct (index_of b l) as [k'|]; [|discriminate]. inversion H; subst.
    destruct (IH k' eq_refl) as (A & B & C). cbn. repeat split; [lia|assumption|].
    intros x Hx. destruct x; [|apply C; lia]. destruct a, b; cbn in *; congruence.
Qed.
Lemma index_of_none b l : index_of b l = None -> forall x, x < length l -> nth x l b = negb b.
Proof.
  induction l as [|a l IH]; intros H x Hx; [cbn in Hx; lia|]. cbn in H.
  destruct (Bool.eqb a b) eqn:E; [discriminate|].
  destruct (index_of b l); [discriminate|]. destruct x; [destruct a, b; cbn in *; congruence|].
  cbn. apply IH; [reflexivity|cbn in Hx; lia].
Qed.

Lemma row_interval_good R l h : row_interval R = Some (l, h) ->
  l <= h /\ forall x, l <= x <= h -> nth x R false = true.
Proof.
  unfold row_interval, index_from. cbn [skipn].
  destruct (index_of true R) as [ft|] eqn:E1; [|discriminate]. cbn [option_map Nat.add].
  destruct (index_of_some _ _ _ E1) as (A1 & A2 & _). cbn in A2.
  destruct (index_of false (skipn (ft + 1) R)) as [k|] eqn:E2; cbn [option_map].
  - destruct (index_of_some _ _ _ E2) as (B1 & _ & B3).
    destruct (index_of true (skipn (ft + 1 + k + 1) R)); cbn [option_map]; [discriminate|].
    intros H. injection H as Hl Hh. subst l h. split; [lia|]. intros x Hx.
    destruct (Nat.eq_dec x ft) as [->|Hne]; [exact A2|].
    specialize (B3 (x - (ft + 1)) ltac:(lia)). rewrite nth_skipn' in B3.
    replace (ft + 1 + (x - (ft + 1))) with x in B3 by lia. cbn in B3. exact B3.
  - intros H. injection H as Hl Hh. subst l h. split; [lia|]. intros x Hx.
    destruct (Nat.eq_dec x ft) as [->|Hne]; [exact A2|].
    pose proof (index_of_none _ _ E2 (x - (ft + 1))) as B3. rewrite skipn_length in B3.
    specialize (B3 ltac:(lia)). rewrite nth_skipn' in B3.
    replace (ft + 1 + (x - (ft + 1))) with x in B3 by lia. cbn in B3. exact B3.
Qed.

Definition good (M : BoolMatrix) (r0 r1 : nat) (iv : Interval) : Prop :=
  match iv with
  | None => True
  | Some (l, h) => l <= h /\ forall r x, r0 <= r <= r1 -> l <= x <= h -> cell M r x = true
  end.

Lemma good_row M r : good M r r (row_interval (nth r M [])).
Proof.
  unfold good. destruct (row_interval (nth r M [])) as [[l h]|] eqn:E; [|exact Logic.I].
  destruct (row_interval_good _ _ _ E) as [A B]. split; [assumption|].
  intros r' x Hr Hx. replace r' with r by lia. unfold cell. apply B. assumption.
Qed.

Lemma good_inter M a b c d lo hi i1 i2 : good M a b i1 -> good M c d i2 ->
  (forall r, lo <= r <= hi -> a <= r <= b \/ c <= r <= d) -> good M lo hi (inter i1 i2).
Proof.
  intros G1 G2 Hc. destruct i1 as [[l1 h1]|], i2 as [[l2 h2]|]; cbn; try exact Logic.I.
  destruct (Nat.max l1 l2 <=? Nat.min h1 h2) eqn:E; [|exact Logic.I]. b2p. cbn.
  destruct G1 as [_ G1], G2 as [_ G2]. split; [assumption|]. intros r x Hr Hx.
  destruct (Hc r Hr); [apply G1|apply G2]; lia.
Qed.

Lemma col_step_good M j d : good M j j d -> forall prev k, k + length prev = j ->
  (forall row, row < length prev -> good M (k + row) (j - 1) (nth row prev None)) ->
  length (col_step prev d) = S (length prev) /\
  forall row, row <= length prev -> good M (k + row) j (nth row (col_step prev d) None).
Proof.
  intros Gd. induction prev as [|p prev IH]; intros k Hk Hp.
  - cbn. split; [reflexivity|]. intros row Hr. replace row with 0 by (cbn in Hr; lia).
    cbn in Hk. replace (k + 0) with j by lia. exact Gd.
  - cbn [col_step length] in *. destruct (IH (S k)) as [L G]; [lia| |].
    { intros row Hr. replace (S k + row) with (k + S row) by lia. apply (Hp (S row)). lia. }
    split; [cbn; rewrite L; reflexivity|]. intros row Hr. destruct row.
    + cbn [nth]. apply (good_inter M (S k) j k (j - 1)).
      * replace (hd None (col_step prev d)) with (nth 0 (col_step prev d) None)
          by (destruct (col_step prev d); reflexivity).
        replace (S k) with (S k + 0) by lia. apply G. lia.
      * replace k with (k + 0) at 1 by lia. apply (Hp 0). lia.
      * intros r Hr'. lia.
    + cbn [nth]. replace (k + S row) with (S k + row) by lia. apply G. lia.
Qed.

Lemma fill_good M : forall diag prev j, length prev = j ->
  (forall row, row < j -> good M row (j - 1) (nth row prev None)) ->
  (forall m, m < length diag -> good M (j + m) (j + m) (nth m diag None)) ->
  forall m row, m < length diag -> row <= j + m ->
    good M row (j + m) (nth row (nth m (fill prev diag) []) None).
Proof.
  induction diag as [|d diag IH]; intros prev j Hl Hp Hd m row Hm Hr; [cbn in Hm; lia|].
  cbn [fill].
  destruct (col_step_good M j d) with (prev := prev) (k := 0) as [L G].
  { replace j with (j + 0) by lia. apply (Hd 0). cbn. lia. }
  { lia. }
  { intros r Hr'. cbn. apply Hp. lia. }
  destruct m.
  - cbn [nth]. replace (j + 0) with j in * by lia. apply (G row). lia.
  - cbn [nth]. replace (j + S m) with (S j + m) by lia. apply IH.
    + rewrite <- Hl. exact L.
    + intros r Hr'. replace (S j - 1) with j by lia. apply (G r). lia.
    + intros m' Hm'. replace (S j + m') with (j + S m') by lia. apply (Hd (S m')). cbn. lia.
    + cbn in Hm. lia.
    + lia.
Qed.

Lemma table_good M row column : column < length M -> row <= column ->
  good M row column (tab_get (table M) row column).
Proof.
  intros Hc Hr. unfold tab_get, table.
  pose proof (fill_good M (map row_interval M) [] 0 eq_refl) as F. cbn [Nat.add] in F.
  apply F; [intros; lia| |rewrite map_length; assumption|assumption].
  intros m Hm. rewrite map_length in Hm.
  change None with (row_interval []). rewrite map_nth. apply good_row.
Qed.

(* the prime filters only empty entries *)
Definition sub (c' c : list Interval) : Prop :=
  forall row, nth row c' None = None \/ nth row c' None = nth row c None.
Lemma sub_refl c : sub c c. Proof. intros row. right. reflexivity. Qed.
Lemma filt_row_sub : forall c c2, sub (filt_row c c2) c.
Proof.
  induction c as [|a c IH]; intros c2 row; [right; reflexivity|]. destruct c2 as [|b c2]; [right; reflexivity|].
  cbn [filt_row]. destruct row; cbn [nth]; [destruct (interval_eqb a b); auto|apply IH].
Qed.
Lemma filt_col_sub : forall c above, sub (filt_col above c) c.
Proof.
  induction c as [|a c IH]; intros above row; [right; reflexivity|].
  cbn [filt_col]. destruct row; cbn [nth]; [destruct (interval_eqb a above); auto|apply IH].
Qed.
Lemma prime_col_sub c : sub (prime_col c) c.
Proof. destruct c as [|a c]; intros row; [right; reflexivity|]. destruct row; cbn; [auto|apply filt_col_sub]. Qed.
Lemma prime_rows_sub : forall cols k, sub (nth k (prime_rows cols) []) (nth k cols []).
Proof.
  induction cols as [|c rest IH]; intros k; [apply sub_refl|].
  cbn [prime_rows]. destruct rest as [|c' rest'].
  - apply sub_refl.
  - destruct k; [cbn [nth]; apply filt_row_sub|]. cbn [nth]. apply IH.
Qed.

Lemma filtered_get M row column l h :
  tab_get (map prime_col (prime_rows (table M))) row column = Some (l, h) ->
  tab_get (table M) row column = Some (l, h).
Proof.
  unfold tab_get. intros H.
  change (@nil Interval) with (prime_col []) in H. rewrite map_nth in H.
  destruct (prime_col_sub (nth column (prime_rows (table M)) []) row) as [E|E]; [congruence|].
  rewrite E in H.
  destruct (prime_rows_sub (table M) column row) as [E'|E']; [congruence|]. rewrite E' in H. exact H.
Qed.

Lemma collect_in n cols t : In t (collect n cols) ->
  exists row column l h, t = mkSR row column l h /\ row <= column /\ column < n /\
                         tab_get cols row column = Some (l, h).
Proof.
  unfold collect. intros H. apply in_flat_map in H. destruct H as (row & Hrow & H).
  apply in_flat_map in H. destruct H as (column & Hcol & H).
  apply in_seq in Hrow. apply in_seq in Hcol.
  destruct (tab_get cols row column) as [[l h]|] eqn:E; [|destruct H].
  destruct H as [<-|[]]. exists row, column, l, h. repeat split; auto; lia.
Qed.

Lemma trunks_full M t : wf_matrix M = true -> In t (get_trunks_matrix M) -> trunk_full M t.
Proof.
  intros W H. unfold get_trunks_matrix in H. apply collect_in in H.
  destruct H as (row & column & l & h & -> & H1 & H2 & H3).
  apply filtered_get in H3. pose proof (table_good M row column H2 H1) as G. rewrite H3 in G.
  destruct G as [G1 G2]. unfold trunk_full, rect_ok. cbn.
  assert (Hh : h < ncols M).
  { assert (C : cell M row h = true) by (apply G2; lia). unfold cell in C.
    rewrite <- (wf_rows M W row) by (unfold nrows; lia).
    destruct (le_lt_dec (length (nth row M [])) h) as [Q|Q]; [|assumption].
    rewrite nth_overflow in C by assumption. discriminate. }
  unfold nrows. repeat split; auto; try lia.
Qed.

(* ====================== soundness, any size ====================== *)
Theorem strop_sound : forall M inst, wf_matrix M = true -> In inst (instances M) ->
  decomp M (trunk inst) (branches inst).
Proof.
  intros M inst W H. unfold instances in H. apply in_flat_map in H. destruct H as (t & Ht & H).
  unfold mk_instance in H. destruct (valid M t) eqn:V; [|destruct H]. destruct H as [<-|[]].
  unfold potential_trunks in Ht. apply filter_In in Ht. destruct Ht as [Ht Hc].
  apply andb_true_iff in Hc. destruct Hc as [_ EC].
  change (trunk (build_instance M t)) with t.
  apply build_decomp; auto. apply trunks_full; assumption.
Qed.

(* ====================== cell count of a decomposition ====================== *)
Lemma grid_rect nr nc r : rect_ok nr nc r ->
  sumf (fun i => sumf (fun j => b2n (in_rectb r i j)) (seq 0 nc)) (seq 0 nr) = area r.
Proof.
  intros (H1 & H2 & H3 & H4).
  assert (Hrow : forall i, rlo r <= i <= rhi r ->
            sumf (fun j => b2n (in_rectb r i j)) (seq 0 nc) = S (chi r) - clo r).
  { intros i Hi. rewrite (seq_split3 nc (clo r) (chi r) H3 H4), !sumf_app.
    rewrite (sumf_zero _ (seq 0 (clo r))), (sumf_zero _ (seq (S (chi r)) _)).
    - rewrite (sumf_ext _ (fun _ => 1)); [rewrite sumf_const, seq_length; lia|].
      intros j Hj. apply in_seq in Hj. unfold in_rectb. bd; try lia. reflexivity.
    - intros j Hj. apply in_seq in Hj. unfold in_rectb. bd; try lia; reflexivity.
    - intros j Hj. apply in_seq in Hj. unfold in_rectb. bd; try lia; reflexivity. }
  assert (Hout : forall i, ~ (rlo r <= i <= rhi r) ->
            sumf (fun j => b2n (in_rectb r i j)) (seq 0 nc) = 0).
  { intros i Hi. apply sumf_zero. intros j _. unfold in_rectb. bd; try lia; reflexivity. }
  rewrite (seq_split3 nr (rlo r) (rhi r) H1 H2), !sumf_app.
  rewrite (sumf_zero _ (seq 0 (rlo r))), (sumf_zero _ (seq (S (rhi r)) _)).
  - rewrite (sumf_ext _ (fun _ => S (chi r) - clo r)); [rewrite sumf_const, seq_length; unfold area; lia|].
    intros i Hi. apply in_seq in Hi. apply Hrow. lia.
  - intros i Hi. apply in_seq in Hi. apply Hout. lia.
  - intros i Hi. apply in_seq in Hi. apply Hout. lia.
Qed.

Lemma grid_cover nr nc rs : Forall (rect_ok nr nc) rs ->
  sumf (fun i => sumf (fun j => cover_count rs i j) (seq 0 nc)) (seq 0 nr) = sum (map area rs).
Proof.
  induction rs as [|r rs IH]; intros H.
  - cbn. apply sumf_zero. intros. apply sumf_zero. reflexivity.
  - inversion H; subst. cbn [map]. change (sum (area r :: map area rs)) with (area r + sum (map area rs)).
    rewrite <- IH by assumption. rewrite <- (grid_rect nr nc r) by assumption.
    rewrite <- sumf_add. apply sumf_ext. intros i _. rewrite <- sumf_add. apply sumf_ext. intros j _.
    apply cover_cons.
Qed.

(* any decomposition has as many cells as the matrix has true cells *)
Theorem decomp_area M T Bs : wf_matrix M = true -> decomp M T Bs ->
  sum (map area (T :: Bs)) = num_cells M.
Proof.
  intros W (HT & HB & P). rewrite (num_cells_blk M W).
  rewrite <- (grid_cover (nrows M) (ncols M)).
  - unfold blk. apply sumf_ext. intros i Hi. apply sumf_ext. intros j Hj.
    apply in_seq in Hi. apply in_seq in Hj. unfold g. rewrite (P i j) by lia.
    destruct (cell M i j); reflexivity.
  - constructor; [assumption|]. apply Forall_forall. intros B HBin.
    rewrite Forall_forall in HB. exact (proj1 (HB B HBin)).
Qed.

Theorem strop_rects_area : forall M inst, wf_matrix M = true -> In inst (instances M) ->
  sum (map area (rectangles inst)) = num_cells M.
Proof.
  intros M inst W H. apply (decomp_area M (trunk inst) (branches inst) W). apply strop_sound; assumption.
Qed.
