(* C15 - exhaustive sweep over all 0/1 matrices: shapes 2x8 and 8x2.
   The proof term is a single VM conversion ([sweep]s computed to true). *)
From Coq Require Import List Bool Arith.
From FrameModel Require Import Strop.Strop Strop.Spec Strop.StropBase.
Import ListNotations.

Lemma Sweep16b_ok : forallb sweepp ([(2, 8); (8, 2)]) = true.
Proof. vm_cast_no_check (eq_refl true). Qed.
