(* C15 - general lemmas: reflection of the decomposition checker, the
   brute-force existence test is implied by any decomposition, enumeration of
   all 0/1 matrices of a shape is complete, lifting of an exhaustive sweep. *)
From Coq Require Import List Bool Arith Lia.
From FrameModel Require Import Strop.Strop Strop.Spec.
Import ListNotations.

(* ---------- lazy folds are the ordinary ones ---------- *)
Lemma allb_forallb {A} (f : A -> bool) l : allb f l = forallb f l.
Proof. induction l as [|a t IH]; cbn; [reflexivity|]. rewrite IH. destruct (f a); reflexivity. Qed.
Lemma anyb_existsb {A} (f : A -> bool) l : anyb f l = existsb f l.
Proof. induction l as [|a t IH]; cbn; [reflexivity|]. rewrite IH. destruct (f a); reflexivity. Qed.

Ltac b2p :=
  repeat match goal with
  | H : _ && _ = true |- _ => apply andb_true_iff in H; destruct H
  | H : (_ <=? _) = true |- _ => apply Nat.leb_le in H
  | H : (_ <=? _) = false |- _ => apply Nat.leb_gt in H
  | H : (_ <? _) = true |- _ => apply Nat.ltb_lt in H
  | H : (_ <? _) = false |- _ => apply Nat.ltb_ge in H
  | H : (_ =? _) = true |- _ => apply Nat.eqb_eq in H
  | H : (_ =? _) = false |- _ => apply Nat.eqb_neq in H
  end.

(* ---------- reflection ---------- *)
Lemma in_rectb_iff r i j : in_rectb r i j = true <-> in_rect r i j.
Proof.
  unfold in_rectb, in_rect. rewrite !andb_true_iff, !Nat.leb_le. tauto.
Qed.

Lemma rect_okb_iff nr nc r : rect_okb nr nc r = true <-> rect_ok nr nc r.
Proof.
  unfold rect_okb, rect_ok. rewrite !andb_true_iff, !Nat.leb_le, !Nat.ltb_lt. tauto.
Qed.

Lemma abutsb_iff T B : abutsb T B = true <-> abuts T B.
Proof.
  unfold abutsb, abuts. rewrite !orb_true_iff, !andb_true_iff, !Nat.eqb_eq, !Nat.leb_le. tauto.
Qed.

Lemma partitionsb_iff M rs : partitionsb M rs = true <-> partitions M rs.
Proof.
  unfold partitionsb, partitions. rewrite forallb_forall. split.
  - intros H i j Hi Hj. specialize (H i). rewrite forallb_forall in H.
    apply Nat.eqb_eq. apply H; apply in_seq; lia.
  - intros H i Hi. apply forallb_forall. intros j Hj. apply in_seq in Hi. apply in_seq in Hj.
    apply Nat.eqb_eq. apply H; lia.
Qed.

Lemma decomp_b_iff M T Bs : decomp_b M T Bs = true <-> decomp M T Bs.
Proof.
  unfold decomp_b, decomp. rewrite !andb_true_iff, rect_okb_iff, partitionsb_iff.
  rewrite forallb_forall, Forall_forall.
  assert (E : (forall B, In B Bs -> rect_okb (nrows M) (ncols M) B && abutsb T B = true) <->
              (forall B, In B Bs -> rect_ok (nrows M) (ncols M) B /\ abuts T B)).
  { split; intros H B HB; specialize (H B HB).
    - apply andb_true_iff in H. destruct H. split; [apply rect_okb_iff|apply abutsb_iff]; assumption.
    - destruct H. apply andb_true_iff. split; [apply rect_okb_iff|apply abutsb_iff]; assumption. }
  rewrite E. tauto.
Qed.

(* ---------- every rectangle of the grid is tried ---------- *)
Lemma all_rects_complete nr nc T : rect_ok nr nc T -> In T (all_rects nr nc).
Proof.
  destruct T as [a b c d]. unfold rect_ok; cbn. intros (H1 & H2 & H3 & H4).
  unfold all_rects. apply in_flat_map. exists a. split; [apply in_seq; lia|].
  apply in_flat_map. exists b. split; [apply in_seq; lia|].
  apply in_flat_map. exists c. split; [apply in_seq; lia|].
  apply in_map_iff. exists d. split; [reflexivity|apply in_seq; lia].
Qed.

(* ---------- a covered cell is a true cell ---------- *)
Lemma cover_count_pos rs r i j : In r rs -> in_rectb r i j = true -> 1 <= cover_count rs i j.
Proof.
  intros Hin Hr. unfold cover_count.
  assert (H : In r (filter (fun r => in_rectb r i j) rs)) by (apply filter_In; auto).
  destruct (filter (fun r0 : SRect => in_rectb r0 i j) rs); [destruct H|cbn; lia].
Qed.

Lemma covered_true M rs r i j :
  partitions M rs -> In r rs -> in_rectb r i j = true -> i < nrows M -> j < ncols M ->
  cell M i j = true.
Proof.
  intros P Hin Hr Hi Hj. pose proof (cover_count_pos rs r i j Hin Hr) as Hc.
  rewrite (P i j Hi Hj) in Hc. destruct (cell M i j); [reflexivity|lia].
Qed.

Lemma cover_count_one_ex rs i j : 1 <= cover_count rs i j -> exists r, In r rs /\ in_rectb r i j = true.
Proof.
  unfold cover_count. intros H.
  destruct (filter (fun r => in_rectb r i j) rs) as [|r l] eqn:E; [cbn in H; lia|].
  assert (Hin : In r (filter (fun r => in_rectb r i j) rs)) by (rewrite E; left; reflexivity).
  apply filter_In in Hin. exists r. exact Hin.
Qed.

(* ---------- any decomposition passes the brute-force existence test ---------- *)
Lemma decomp_cellwise M T Bs : decomp M T Bs -> cellwise_ok M T = true.
Proof.
  intros (HT & HB & P). unfold cellwise_ok.
  rewrite allb_forallb. apply forallb_forall. intros i Hi.
  rewrite allb_forallb. apply forallb_forall. intros j Hj.
  apply in_seq in Hi. apply in_seq in Hj. cbn in Hi, Hj.
  destruct (in_rectb T i j) eqn:ET.
  { apply (covered_true M (T :: Bs) T i j P); [left; reflexivity|assumption|lia|lia]. }
  destruct (cell M i j) eqn:EC; [|reflexivity].
  pose proof (P i j ltac:(lia) ltac:(lia)) as Pc. rewrite EC in Pc.
  assert (Hc : 1 <= cover_count Bs i j).
  { unfold cover_count in *. cbn [filter] in Pc. rewrite ET in Pc. lia. }
  destruct (cover_count_one_ex Bs i j Hc) as (B & HinB & HBij).
  rewrite Forall_forall in HB. destruct (HB B HinB) as (HokB & Hab).
  apply in_rectb_iff in HBij. destruct HBij as (Hr & Hcc).
  destruct HT as (T1 & T2 & T3 & T4). destruct HokB as (B1 & B2 & B3 & B4).
  assert (Hcov : forall i' j', rlo B <= i' <= rhi B -> clo B <= j' <= chi B -> cell M i' j' = true).
  { intros i' j' Hi' Hj'. apply (covered_true M (T :: Bs) B i' j' P); [right; assumption| |lia|lia].
    apply in_rectb_iff. split; assumption. }
  unfold strip_ok.
  destruct Hab as [(A1 & A2 & A3)|[(A1 & A2 & A3)|[(A1 & A2 & A3)|(A1 & A2 & A3)]]].
  - (* north *)
    replace ((clo T <=? j) && (j <=? chi T)) with true
      by (symmetry; apply andb_true_iff; split; apply Nat.leb_le; lia).
    replace (i <? rlo T) with true by (symmetry; apply Nat.ltb_lt; lia).
    rewrite allb_forallb. apply forallb_forall. intros i' Hi'. apply in_seq in Hi'. apply Hcov; lia.
  - (* south *)
    replace ((clo T <=? j) && (j <=? chi T)) with true
      by (symmetry; apply andb_true_iff; split; apply Nat.leb_le; lia).
    replace (i <? rlo T) with false by (symmetry; apply Nat.ltb_ge; lia).
    replace (rhi T <? i) with true by (symmetry; apply Nat.ltb_lt; lia).
    rewrite allb_forallb. apply forallb_forall. intros i' Hi'. apply in_seq in Hi'. apply Hcov; lia.
  - (* west *)
    replace ((clo T <=? j) && (j <=? chi T)) with false
      by (symmetry; apply andb_false_iff; left; apply Nat.leb_gt; lia).
    replace ((rlo T <=? i) && (i <=? rhi T)) with true
      by (symmetry; apply andb_true_iff; split; apply Nat.leb_le; lia).
    replace (j <? clo T) with true by (symmetry; apply Nat.ltb_lt; lia).
    rewrite allb_forallb. apply forallb_forall. intros j' Hj'. apply in_seq in Hj'. apply Hcov; lia.
  - (* east *)
    replace ((clo T <=? j) && (j <=? chi T)) with false
      by (symmetry; apply andb_false_iff; right; apply Nat.leb_gt; lia).
    replace ((rlo T <=? i) && (i <=? rhi T)) with true
      by (symmetry; apply andb_true_iff; split; apply Nat.leb_le; lia).
    replace (j <? clo T) with false by (symmetry; apply Nat.ltb_ge; lia).
    replace (chi T <? j) with true by (symmetry; apply Nat.ltb_lt; lia).
    rewrite allb_forallb. apply forallb_forall. intros j' Hj'. apply in_seq in Hj'. apply Hcov; lia.
Qed.

Theorem decomp_has_decomp M T Bs : decomp M T Bs -> has_decomp M = true.
Proof.
  intros D. unfold has_decomp. rewrite anyb_existsb. apply existsb_exists. exists T. split.
  - apply all_rects_complete. exact (proj1 D).
  - exact (decomp_cellwise M T Bs D).
Qed.

(* ---------- all 0/1 matrices of a shape ---------- *)
Fixpoint all_lists {A} (xs : list A) (n : nat) : list (list A) :=
  match n with
  | 0 => [[]]
  | S n' => flat_map (fun t => map (fun x => x :: t) xs) (all_lists xs n')
  end.

Lemma all_lists_complete {A} (xs : list A) l :
  Forall (fun x => In x xs) l -> In l (all_lists xs (length l)).
Proof.
  induction l as [|a t IH]; intros H; cbn.
  - left; reflexivity.
  - inversion H; subst. apply in_flat_map. exists t. split; [apply IH; assumption|].
    apply in_map_iff. exists a. split; [reflexivity|assumption].
Qed.

Definition all_rows (C : nat) : list (list bool) := all_lists [false; true] C.
Definition all_matrices (R C : nat) : list BoolMatrix := all_lists (all_rows C) R.

Lemma all_rows_complete row : In row (all_rows (length row)).
Proof.
  apply all_lists_complete. apply Forall_forall. intros [|] _; cbn; auto.
Qed.

Theorem all_matrices_complete M R C : shape M R C -> In M (all_matrices R C).
Proof.
  intros [HR HC]. subst R. apply all_lists_complete.
  rewrite Forall_forall in *. intros row Hrow. rewrite <- (HC row Hrow). apply all_rows_complete.
Qed.

(* ---------- the exhaustive check and its lifting ---------- *)
(* is_strop agrees with the brute-force existence test, and every offered
   instance passes the decomposition checker *)
Definition check (M : BoolMatrix) : bool :=
  Bool.eqb (is_strop M) (has_decomp M) &&
  forallb (fun inst => decomp_b M (trunk inst) (branches inst)) (instances M).

Definition sweep (R C : nat) : bool := forallb check (all_matrices R C).
Definition sweepp (p : nat * nat) : bool := sweep (fst p) (snd p).

Theorem sweep_lift R C : sweep R C = true -> forall M, shape M R C -> check M = true.
Proof.
  unfold sweep. intros H M HM. rewrite forallb_forall in H. apply H.
  apply all_matrices_complete. exact HM.
Qed.

(* what a successful check means *)
Theorem check_meaning M : check M = true ->
  (is_strop M = true <-> exists T Bs, decomp M T Bs) /\
  (forall inst, In inst (instances M) -> decomp M (trunk inst) (branches inst)).
Proof.
  unfold check. intros H. apply andb_true_iff in H. destruct H as [H1 H2].
  apply eqb_prop in H1. rewrite forallb_forall in H2.
  assert (S : forall inst, In inst (instances M) -> decomp M (trunk inst) (branches inst)).
  { intros inst Hin. apply decomp_b_iff. apply H2. exact Hin. }
  split; [|exact S]. split.
  - intros Hs. unfold is_strop in Hs. destruct (instances M) as [|inst l] eqn:E; [discriminate|].
    exists (trunk inst), (branches inst). apply S. left; reflexivity.
  - intros (T & Bs & D). rewrite H1. exact (decomp_has_decomp M T Bs D).
Qed.

(* the shapes with at most / exactly n cells *)
Definition shapes_le (n : nat) : list (nat * nat) :=
  filter (fun p => fst p * snd p <=? n) (list_prod (seq 1 n) (seq 1 n)).
Definition shapes_eq (n : nat) : list (nat * nat) :=
  filter (fun p => fst p * snd p =? n) (list_prod (seq 1 n) (seq 1 n)).

Lemma in_shapes_le R C n : 1 <= R -> 1 <= C -> R * C <= n -> In (R, C) (shapes_le n).
Proof.
  intros HR HC Hn. unfold shapes_le. apply filter_In. split.
  - apply in_prod; apply in_seq; nia.
  - cbn. apply Nat.leb_le. exact Hn.
Qed.
Lemma in_shapes_eq R C n : 1 <= R -> 1 <= C -> R * C = n -> In (R, C) (shapes_eq n).
Proof.
  intros HR HC Hn. unfold shapes_eq. apply filter_In. split.
  - apply in_prod; apply in_seq; nia.
  - cbn. apply Nat.eqb_eq. exact Hn.
Qed.
