(* C15 - theorems about the Strop model.
   Part 1: bounded completeness (now a corollary of StropComplete.v; sweeps in SweepAll.v).
   Part 2: soundness for matrices of any size.
   Part 3: cell count of an instance's rectangles. *)
From Coq Require Import List Bool Arith Lia.
From FrameModel Require Import Strop.Strop Strop.Spec Strop.StropBase.
From FrameModel Require Import Strop.StropSound Strop.StropComplete.
Import ListNotations.

(* ====================== Part 1: bounded completeness ====================== *)
(* Since completeness is proved for every size (StropComplete.v) the bounded theorem is a
   corollary.  The exhaustive vm_compute sweeps over all matrices with at most 16 cells
   (Sweep*.v) are still compiled and lifted to the same statement in SweepAll.v
   ([strop_complete_bounded_by_sweep]) as an independent cross-check by computation; they are
   no longer a dependency of the property theorems. *)
Theorem strop_complete_bounded : forall R C M,
  1 <= R -> 1 <= C -> R * C <= 16 -> shape M R C ->
  (is_strop M = true <-> has_decomp M = true) /\
  (is_strop M = true <-> exists T Bs, decomp M T Bs) /\
  (forall inst, In inst (instances M) -> decomp M (trunk inst) (branches inst)).
Proof. intros R C M HR HC _ HM. exact (strop_complete_shape R C M HR HC HM). Qed.

(* the hypotheses are satisfiable by a matrix with and one without a decomposition *)
Example strop_complete_bounded_ex :
  shape [[false; true; false]; [true; true; true]; [false; true; false]] 3 3 /\
  is_strop [[false; true; false]; [true; true; true]; [false; true; false]] = true /\
  shape [[true; true; false]; [false; true; true]; [false; false; true]] 3 3 /\
  is_strop [[true; true; false]; [false; true; true]; [false; false; true]] = false.
Proof.
  unfold shape. repeat split; repeat constructor.
Qed.

(* ====================== Part 2 and 3: any size ====================== *)
(* proved in StropSound.v:
     strop_sound      : forall M inst, wf_matrix M = true -> In inst (instances M) ->
                        decomp M (trunk inst) (branches inst)
     decomp_area      : forall M T Bs, wf_matrix M = true -> decomp M T Bs ->
                        sum (map area (T :: Bs)) = num_cells M
     strop_rects_area : forall M inst, wf_matrix M = true -> In inst (instances M) ->
                        sum (map area (rectangles inst)) = num_cells M            *)
From FrameModel Require Export Strop.StropSound.

(* consequence for any size: is_strop implies that a decomposition exists and that the
   brute-force test finds it (the converse is the bounded sweep above) *)
Theorem strop_sound_exists : forall M, wf_matrix M = true -> is_strop M = true ->
  has_decomp M = true /\ exists T Bs, decomp M T Bs.
Proof.
  intros M W H. unfold is_strop in H. destruct (instances M) as [|inst l] eqn:E; [discriminate|].
  assert (D : decomp M (trunk inst) (branches inst)).
  { apply strop_sound; [assumption|]. rewrite E. left; reflexivity. }
  split; [exact (decomp_has_decomp M _ _ D)|]. exists (trunk inst), (branches inst). exact D.
Qed.

(* the hypotheses of strop_sound are satisfiable: the docstring example of strop.py has two instances *)
Definition docstring_example : BoolMatrix :=
  let T := true in let F := false in
  [[F;F;F;F;F;F;T;T;F;F]; [F;F;F;T;T;F;T;T;F;F]; [F;F;T;T;T;T;T;T;T;F];
   [T;T;T;T;T;T;T;T;T;T]; [T;T;T;T;T;T;T;T;T;T]; [F;F;T;T;T;T;T;T;T;F]].
Example strop_sound_ex :
  wf_matrix docstring_example = true /\ length (instances docstring_example) = 2.
Proof. split; reflexivity. Qed.
