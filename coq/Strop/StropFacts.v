(* C15 - theorems about the Strop model.
   Part 1: bounded completeness (finite sweeps of Sweep*.v lifted to all matrices of a shape).
   Part 2: soundness for matrices of any size.
   Part 3: cell count of an instance's rectangles. *)
From Coq Require Import List Bool Arith Lia.
From FrameModel Require Import Strop.Strop Strop.Spec Strop.StropBase.
From FrameModel Require Import Strop.Sweep12 Strop.Sweep13 Strop.Sweep15
     Strop.Sweep16a Strop.Sweep16b Strop.Sweep16c.
Import ListNotations.

(* ====================== Part 1: bounded completeness ====================== *)
Lemma sweepp_in L p : forallb sweepp L = true -> In p L -> sweepp p = true.
Proof. intros H Hin. rewrite forallb_forall in H. exact (H p Hin). Qed.

Theorem sweep_all_16 R C : 1 <= R -> 1 <= C -> R * C <= 16 -> sweep R C = true.
Proof.
  intros HR HC Hn. change (sweepp (R, C) = true).
  destruct (le_lt_dec (R * C) 12) as [H12|H12].
  { apply (sweepp_in _ _ Sweep12_ok). apply in_shapes_le; assumption. }
  assert (Hc : R * C = 13 \/ R * C = 14 \/ R * C = 15 \/ R * C = 16) by lia.
  destruct Hc as [H|[H|[H|H]]].
  - apply (sweepp_in _ _ Sweep13_ok). apply in_or_app. left. apply in_shapes_eq; assumption.
  - apply (sweepp_in _ _ Sweep13_ok). apply in_or_app. right. apply in_shapes_eq; assumption.
  - apply (sweepp_in _ _ Sweep15_ok). apply in_shapes_eq; assumption.
  - pose proof (in_shapes_eq R C 16 HR HC H) as Hin. vm_compute in Hin.
    destruct Hin as [E|[E|[E|[E|[E|[]]]]]]; rewrite <- E.
    + apply (sweepp_in _ _ Sweep16a_ok). left; reflexivity.
    + apply (sweepp_in _ _ Sweep16b_ok). left; reflexivity.
    + apply (sweepp_in _ _ Sweep16c_ok). left; reflexivity.
    + apply (sweepp_in _ _ Sweep16b_ok). right; left; reflexivity.
    + apply (sweepp_in _ _ Sweep16a_ok). right; left; reflexivity.
Qed.

(* For every 0/1 matrix with R >= 1 rows, C >= 1 columns and at most 16 cells:
   is_strop holds exactly when the brute-force test finds a decomposition,
   exactly when a decomposition exists at all (any trunk, any list of branches),
   and every instance that is offered is a decomposition. *)
Theorem strop_complete_bounded : forall R C M,
  1 <= R -> 1 <= C -> R * C <= 16 -> shape M R C ->
  (is_strop M = true <-> has_decomp M = true) /\
  (is_strop M = true <-> exists T Bs, decomp M T Bs) /\
  (forall inst, In inst (instances M) -> decomp M (trunk inst) (branches inst)).
Proof.
  intros R C M HR HC Hn HM.
  pose proof (sweep_lift R C (sweep_all_16 R C HR HC Hn) M HM) as Hck.
  destruct (check_meaning M Hck) as [H1 H2].
  split; [|split; assumption].
  unfold check in Hck. apply andb_true_iff in Hck. destruct Hck as [E _].
  apply eqb_prop in E. rewrite E. tauto.
Qed.

(* the hypotheses are satisfiable by a matrix with and one without a decomposition *)
Example strop_complete_bounded_ex :
  shape [[false; true; false]; [true; true; true]; [false; true; false]] 3 3 /\
  is_strop [[false; true; false]; [true; true; true]; [false; true; false]] = true /\
  shape [[true; true; false]; [false; true; true]; [false; false; true]] 3 3 /\
  is_strop [[true; true; false]; [false; true; true]; [false; false; true]] = false.
Proof.
  unfold shape. repeat split; repeat constructor.
Qed.

(* ====================== Part 2 and 3: any size ====================== *)
(* proved in StropSound.v:
     strop_sound      : forall M inst, wf_matrix M = true -> In inst (instances M) ->
                        decomp M (trunk inst) (branches inst)
     decomp_area      : forall M T Bs, wf_matrix M = true -> decomp M T Bs ->
                        sum (map area (T :: Bs)) = num_cells M
     strop_rects_area : forall M inst, wf_matrix M = true -> In inst (instances M) ->
                        sum (map area (rectangles inst)) = num_cells M            *)
From FrameModel Require Export Strop.StropSound.

(* consequence for any size: is_strop implies that a decomposition exists and that the
   brute-force test finds it (the converse is the bounded sweep above) *)
Theorem strop_sound_exists : forall M, wf_matrix M = true -> is_strop M = true ->
  has_decomp M = true /\ exists T Bs, decomp M T Bs.
Proof.
  intros M W H. unfold is_strop in H. destruct (instances M) as [|inst l] eqn:E; [discriminate|].
  assert (D : decomp M (trunk inst) (branches inst)).
  { apply strop_sound; [assumption|]. rewrite E. left; reflexivity. }
  split; [exact (decomp_has_decomp M _ _ D)|]. exists (trunk inst), (branches inst). exact D.
Qed.

(* the hypotheses of strop_sound are satisfiable: the docstring example of strop.py has two instances *)
Definition docstring_example : BoolMatrix :=
  let T := true in let F := false in
  [[F;F;F;F;F;F;T;T;F;F]; [F;F;F;T;T;F;T;T;F;F]; [F;F;T;T;T;T;T;T;T;F];
   [T;T;T;T;T;T;T;T;T;T]; [T;T;T;T;T;T;T;T;T;T]; [F;F;T;T;T;T;T;T;T;F]].
Example strop_sound_ex :
  wf_matrix docstring_example = true /\ length (instances docstring_example) = 2.
Proof. split; reflexivity. Qed.
