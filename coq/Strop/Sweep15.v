(* C15 - exhaustive sweep over all 0/1 matrices: every shape with 15 cells.
   The proof term is a single VM conversion ([sweep]s computed to true). *)
From Coq Require Import List Bool Arith.
From FrameModel Require Import Strop.Strop Strop.Spec Strop.StropBase.
Import ListNotations.

Lemma Sweep15_ok : forallb sweepp (shapes_eq 15) = true.
Proof. vm_cast_no_check (eq_refl true). Qed.
