(* Model of the polygon level of tools/floorset_parser/floor_set_manager/utils/utils.py
   (definitions only): is_point_inside_polygon (even-odd rule) and strop_decomposition
   (grid of the distinct vertex coordinates, cell centres tested against the polygon,
   Strop on the resulting 0/1 matrix, index rectangles mapped back to [cx, cy, w, h]).

   Numbers are exact rationals.  strop_decomposition returns the rectangles of
   next(s.instances()), the first element of a list filled by iterating a Python set, so
   WHICH instance comes first is not specified by the language: the model returns the
   rectangle lists of all instances (in the model's trunk order) and the correspondence
   requires the implementation's answer to be one of them. *)
From Coq Require Import List Bool Arith Lia.
From FrameModel Require Import Num.QcTac Strop.Strop.
Import ListNotations.
Open Scope Qc_scope.

Definition Pt : Type := (Qc * Qc)%type.

(* one iteration of the loop: does the edge p1 -> p2 toggle [inside]?
     if (p1.y <= point.y < p2.y) or (p2.y <= point.y < p1.y):
         intersect_x = p1.x + (point.y - p1.y) * (p2.x - p1.x) / (p2.y - p1.y)
         if point.x < intersect_x: inside = not inside                          *)
Definition crosses (p p1 p2 : Pt) : bool :=
  let '(px, py) := p in let '(x1, y1) := p1 in let '(x2, y2) := p2 in
  if (Qcleb y1 py && Qcltb py y2) || (Qcleb y2 py && Qcltb py y1)
  then Qcltb px (x1 + (py - y1) * (x2 - x1) / (y2 - y1))
  else false.

(* (vertices[i], vertices[(i + 1) % n]) for i in range(n) *)
Definition edges (vs : list Pt) : list (Pt * Pt) :=
  match vs with
  | [] => []
  | v0 :: t => combine vs (t ++ [v0])
  end.

Definition point_inside (p : Pt) (vs : list Pt) : bool :=
  fold_left (fun acc e => if crosses p (fst e) (snd e) then negb acc else acc) (edges vs) false.

(* sorted(set(...)) *)
Fixpoint insert_u (x : Qc) (l : list Qc) : list Qc :=
  match l with
  | [] => [x]
  | y :: t => if Qcltb x y then x :: l else if Qceqb x y then l else y :: insert_u x t
  end.
Definition sort_u (l : list Qc) : list Qc := fold_right insert_u [] l.

Definition x_coords (vs : list Pt) : list Qc := sort_u (map fst vs).
Definition y_coords (vs : list Pt) : list Qc := rev (sort_u (map snd vs)).     (* reverse=True *)

Definition mid (a b : Qc) : Qc := (a + b) * half.

(* the string m: row i, column j is '1' iff the centre of the cell
   [x_coords[j], x_coords[j+1]] x [y_coords[i+1], y_coords[i]] is inside the polygon *)
Definition grid_matrix (vs : list Pt) : BoolMatrix :=
  let xs := x_coords vs in
  let ys := y_coords vs in
  map (fun i => map (fun j =>
         point_inside (mid (nth j xs 0) (nth (S j) xs 0), mid (nth (S i) ys 0) (nth i ys 0)) vs)
       (seq 0 (length xs - 1))) (seq 0 (length ys - 1)).

Definition Rect4 : Type := (Qc * Qc * Qc * Qc)%type.      (* [cx, cy, w, h] *)

Definition rect4 (xs ys : list Qc) (r : SRect) : Rect4 :=
  let x_min := nth (clo r) xs 0 in
  let x_max := nth (S (chi r)) xs 0 in
  let y_max := nth (rlo r) ys 0 in
  let y_min := nth (S (rhi r)) ys 0 in
  ((x_min + x_max) * half, (y_min + y_max) * half, x_max - x_min, y_max - y_min).

(* None = an assertion fails (empty grid in Strop.__init__, or "Polygon is not a STROP");
   Some l = the rectangle list of every instance, one of which the code returns *)
Definition strop_decomposition_all (vs : list Pt) : option (list (list Rect4)) :=
  match strop (grid_matrix vs) with
  | None => None
  | Some [] => None
  | Some insts => Some (map (fun i => map (rect4 (x_coords vs) (y_coords vs)) (rectangles i)) insts)
  end.
