(* Specification of a single-trunk decomposition of a 0/1 grid, independent of
   the way strop.py searches for one. *)
From Coq Require Import List Bool Arith Lia.
From FrameModel Require Import Strop.Strop.
Import ListNotations.

(* cell (i,j) lies in the index rectangle r *)
Definition in_rectb (r : SRect) (i j : nat) : bool :=
  (rlo r <=? i) && (i <=? rhi r) && (clo r <=? j) && (j <=? chi r).
Definition in_rect (r : SRect) (i j : nat) : Prop :=
  rlo r <= i <= rhi r /\ clo r <= j <= chi r.

(* a non-empty rectangle inside an nr x nc grid *)
Definition rect_ok (nr nc : nat) (r : SRect) : Prop :=
  rlo r <= rhi r /\ rhi r < nr /\ clo r <= chi r /\ chi r < nc.
Definition rect_okb (nr nc : nat) (r : SRect) : bool :=
  (rlo r <=? rhi r) && (rhi r <? nr) && (clo r <=? chi r) && (chi r <? nc).

(* B touches exactly one side of T and stays within T's extent on that side *)
Definition abuts (T B : SRect) : Prop :=
     (rhi B + 1 = rlo T /\ clo T <= clo B /\ chi B <= chi T)      (* north *)
  \/ (rlo B = rhi T + 1 /\ clo T <= clo B /\ chi B <= chi T)      (* south *)
  \/ (chi B + 1 = clo T /\ rlo T <= rlo B /\ rhi B <= rhi T)      (* west  *)
  \/ (clo B = chi T + 1 /\ rlo T <= rlo B /\ rhi B <= rhi T).     (* east  *)
Definition abutsb (T B : SRect) : bool :=
     ((rhi B + 1 =? rlo T) && (clo T <=? clo B) && (chi B <=? chi T))
  || ((rlo B =? rhi T + 1) && (clo T <=? clo B) && (chi B <=? chi T))
  || ((chi B + 1 =? clo T) && (rlo T <=? rlo B) && (rhi B <=? rhi T))
  || ((clo B =? chi T + 1) && (rlo T <=? rlo B) && (rhi B <=? rhi T)).

(* number of rectangles of the list that contain the cell *)
Definition cover_count (rs : list SRect) (i j : nat) : nat :=
  length (filter (fun r => in_rectb r i j) rs).

(* T and Bs partition the true cells of M: every cell of the grid is covered
   exactly once if it is true and not at all if it is false *)
Definition partitions (M : BoolMatrix) (rs : list SRect) : Prop :=
  forall i j, i < nrows M -> j < ncols M ->
    cover_count rs i j = if cell M i j then 1 else 0.
Definition partitionsb (M : BoolMatrix) (rs : list SRect) : bool :=
  forallb (fun i => forallb (fun j =>
      cover_count rs i j =? (if cell M i j then 1 else 0)) (seq 0 (ncols M))) (seq 0 (nrows M)).

Definition decomp (M : BoolMatrix) (T : SRect) (Bs : list SRect) : Prop :=
  rect_ok (nrows M) (ncols M) T /\
  Forall (fun B => rect_ok (nrows M) (ncols M) B /\ abuts T B) Bs /\
  partitions M (T :: Bs).

(* boolean checker of the same *)
Definition decomp_b (M : BoolMatrix) (T : SRect) (Bs : list SRect) : bool :=
  rect_okb (nrows M) (ncols M) T &&
  forallb (fun B => rect_okb (nrows M) (ncols M) B && abutsb T B) Bs &&
  partitionsb M (T :: Bs).

(* ---------- existence of a decomposition, by brute force over the trunk ----------
   For a fixed trunk T a decomposition exists iff every cell of T is true and
   every true cell outside T lies straight above / below / left / right of T
   (within T's extent) with every cell between it and T true as well.

   [allb]/[anyb] are forallb/existsb written with [if] so that vm_compute
   (call by value) stops at the first decisive element. *)
Fixpoint allb {A} (f : A -> bool) (l : list A) : bool :=
  match l with [] => true | a :: t => if f a then allb f t else false end.
Fixpoint anyb {A} (f : A -> bool) (l : list A) : bool :=
  match l with [] => false | a :: t => if f a then true else anyb f t end.

Definition strip_ok (M : BoolMatrix) (T : SRect) (i j : nat) : bool :=
  if (clo T <=? j) && (j <=? chi T) then
    if i <? rlo T then allb (fun i' => cell M i' j) (seq i (rlo T - i))                 (* north *)
    else if rhi T <? i then allb (fun i' => cell M i' j) (seq (S (rhi T)) (i - rhi T))  (* south *)
    else false
  else if (rlo T <=? i) && (i <=? rhi T) then
    if j <? clo T then allb (fun j' => cell M i j') (seq j (clo T - j))                 (* west *)
    else if chi T <? j then allb (fun j' => cell M i j') (seq (S (chi T)) (j - chi T))  (* east *)
    else false
  else false.

Definition cellwise_ok (M : BoolMatrix) (T : SRect) : bool :=
  allb (fun i => allb (fun j =>
      if in_rectb T i j then cell M i j
      else if cell M i j then strip_ok M T i j else true) (seq 0 (ncols M))) (seq 0 (nrows M)).

Definition all_rects (nr nc : nat) : list SRect :=
  flat_map (fun r0 => flat_map (fun r1 => flat_map (fun c0 => map (fun c1 => mkSR r0 r1 c0 c1)
     (seq c0 (nc - c0))) (seq 0 nc)) (seq r0 (nr - r0))) (seq 0 nr).

Definition has_decomp (M : BoolMatrix) : bool :=
  anyb (fun T => cellwise_ok M T) (all_rects (nrows M) (ncols M)).

(* the shape of a matrix *)
Definition shape (M : BoolMatrix) (R C : nat) : Prop :=
  length M = R /\ Forall (fun row => length row = C) M.
