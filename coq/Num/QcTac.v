(* Canonical rationals as the number type of every model, boolean
   comparisons with reflection lemmas, and the [qlra]/[qnra] tactics that
   send Qc order goals to lra/nra over Q. *)
From Coq Require Export QArith Qcanon Lia Lqa Bool List ZArith.
Export ListNotations.
Open Scope Qc_scope.

(* literal constructor used by the harness: qc n d = n/d *)
Definition qc (n : Z) (d : positive) : Qc := Q2Qc (n # d).
Definition half : Qc := Q2Qc (1 # 2).
Definition two : Qc := Q2Qc 2.

Lemma this_plus a b : (this (a + b) == this a + this b)%Q.
Proof. unfold Qcplus, Q2Qc; cbn [this]. apply Qred_correct. Qed.
Lemma this_mult a b : (this (a * b) == this a * this b)%Q.
Proof. unfold Qcmult, Q2Qc; cbn [this]. apply Qred_correct. Qed.
Lemma this_opp a : (this (- a) == - this a)%Q.
Proof. unfold Qcopp, Q2Qc; cbn [this]. apply Qred_correct. Qed.
Lemma this_minus a b : (this (a - b) == this a - this b)%Q.
Proof. unfold Qcminus. rewrite this_plus, this_opp. reflexivity. Qed.
Lemma this_Q2Qc q : (this (Q2Qc q) == q)%Q.
Proof. cbn [this Q2Qc]. apply Qred_correct. Qed.
Lemma Qc_eq_iff (a b : Qc) : a = b <-> (this a == this b)%Q.
Proof. split. intros ->. reflexivity. apply Qc_is_canon. Qed.
Lemma Qc_neq_iff (a b : Qc) : a <> b <-> ~ (this a == this b)%Q.
Proof. rewrite Qc_eq_iff. tauto. Qed.

Ltac qc_norm_hyp H :=
  try rewrite Qc_eq_iff in H; try rewrite Qc_neq_iff in H;
  unfold Qcle, Qclt in H;
  repeat (progress rewrite ?this_plus, ?this_minus, ?this_mult, ?this_opp, ?this_Q2Qc in H).
Ltac qc_norm_goal :=
  try rewrite Qc_eq_iff; try rewrite Qc_neq_iff;
  unfold Qcle, Qclt;
  repeat (progress rewrite ?this_plus, ?this_minus, ?this_mult, ?this_opp, ?this_Q2Qc).
Ltac qc_norm :=
  unfold half, two, qc in *;
  repeat match goal with
  | H : @eq Qc _ _ |- _ => progress qc_norm_hyp H
  | H : ~ @eq Qc _ _ |- _ => progress qc_norm_hyp H
  | H : context [Qcle] |- _ => progress qc_norm_hyp H
  | H : context [Qclt] |- _ => progress qc_norm_hyp H
  end; qc_norm_goal.
Ltac qlra := qc_norm; lra.
Ltac qnra := qc_norm; nra.

Ltac splits := repeat match goal with |- _ /\ _ => split end.

(* ---- boolean comparisons ---- *)
Definition Qcleb (a b : Qc) : bool := Qle_bool (this a) (this b).
Definition Qcltb (a b : Qc) : bool := negb (Qle_bool (this b) (this a)).
Definition Qceqb (a b : Qc) : bool := Qeq_bool (this a) (this b).

Lemma Qcleb_spec a b : reflect (a <= b) (Qcleb a b).
Proof.
  unfold Qcleb, Qcle. destruct (Qle_bool a b) eqn:E; constructor.
  - apply Qle_bool_iff; exact E.
  - intro H. apply Qle_bool_iff in H. congruence.
Qed.
Lemma Qcltb_spec a b : reflect (a < b) (Qcltb a b).
Proof.
  unfold Qcltb, Qclt. destruct (Qle_bool b a) eqn:E; constructor; cbn.
  - apply Qle_bool_iff in E. apply Qle_not_lt; exact E.
  - apply Qnot_le_lt. intro H. apply Qle_bool_iff in H. congruence.
Qed.
Lemma Qceqb_spec a b : reflect (a = b) (Qceqb a b).
Proof.
  unfold Qceqb. destruct (Qeq_bool a b) eqn:E; constructor.
  - apply Qc_is_canon. apply Qeq_bool_iff; exact E.
  - intros ->. rewrite (proj2 (Qeq_bool_iff b b)) in E; [discriminate|reflexivity].
Qed.

Lemma Qcleb_true a b : Qcleb a b = true <-> a <= b.
Proof. destruct (Qcleb_spec a b); split; auto; discriminate. Qed.
Lemma Qcleb_false a b : Qcleb a b = false <-> b < a.
Proof.
  destruct (Qcleb_spec a b) as [H|H]; split; auto; try discriminate.
  - intro H'. exfalso. apply (Qcle_not_lt _ _ H H').
  - intros _. apply Qcnot_le_lt; exact H.
Qed.
Lemma Qcltb_true a b : Qcltb a b = true <-> a < b.
Proof. destruct (Qcltb_spec a b); split; auto; discriminate. Qed.
Lemma Qcltb_false a b : Qcltb a b = false <-> b <= a.
Proof.
  destruct (Qcltb_spec a b) as [H|H]; split; auto; try discriminate.
  - intro H'. exfalso. apply (Qcle_not_lt _ _ H' H).
  - intros _. apply Qcnot_lt_le; exact H.
Qed.
Lemma Qceqb_true a b : Qceqb a b = true <-> a = b.
Proof. destruct (Qceqb_spec a b); split; auto; discriminate. Qed.
Lemma Qceqb_false a b : Qceqb a b = false <-> a <> b.
Proof. destruct (Qceqb_spec a b); split; auto; try discriminate; congruence. Qed.

(* Turn boolean comparison facts in the context (and goal) into Props. *)
Ltac qb2p :=
  repeat match goal with
  | H : Qcleb _ _ = true |- _ => apply Qcleb_true in H
  | H : Qcleb _ _ = false |- _ => apply Qcleb_false in H
  | H : Qcltb _ _ = true |- _ => apply Qcltb_true in H
  | H : Qcltb _ _ = false |- _ => apply Qcltb_false in H
  | H : Qceqb _ _ = true |- _ => apply Qceqb_true in H
  | H : Qceqb _ _ = false |- _ => apply Qceqb_false in H
  | H : true = _ |- _ => symmetry in H
  | H : false = _ |- _ => symmetry in H
  | H : andb _ _ = true |- _ => apply andb_true_iff in H; destruct H
  | H : negb _ = true |- _ => apply negb_true_iff in H
  | H : negb _ = false |- _ => apply negb_false_iff in H
  | |- Qcleb _ _ = true => apply Qcleb_true
  | |- Qcleb _ _ = false => apply Qcleb_false
  | |- Qcltb _ _ = true => apply Qcltb_true
  | |- Qcltb _ _ = false => apply Qcltb_false
  | |- Qceqb _ _ = true => apply Qceqb_true
  | |- Qceqb _ _ = false => apply Qceqb_false
  end.

Definition Qcmin (a b : Qc) : Qc := if Qcleb a b then a else b.
Definition Qcmax (a b : Qc) : Qc := if Qcleb a b then b else a.
Definition Qcabs (a : Qc) : Qc := if Qcleb 0 a then a else - a.

Lemma Qcmin_spec a b : (a <= b /\ Qcmin a b = a) \/ (b < a /\ Qcmin a b = b).
Proof. unfold Qcmin. destruct (Qcleb a b) eqn:E; qb2p; auto. Qed.
Lemma Qcmax_spec a b : (a <= b /\ Qcmax a b = b) \/ (b < a /\ Qcmax a b = a).
Proof. unfold Qcmax. destruct (Qcleb a b) eqn:E; qb2p; auto. Qed.
Lemma Qcabs_spec a : (0 <= a /\ Qcabs a = a) \/ (a < 0 /\ Qcabs a = - a).
Proof. unfold Qcabs. destruct (Qcleb 0 a) eqn:E; qb2p; auto. Qed.

(* destruct every min/max/abs occurrence into its two cases *)
Ltac qcases :=
  repeat match goal with
  | |- context [Qcmin ?a ?b] =>
      let H := fresh "Hmin" in let E := fresh "Emin" in
      destruct (Qcmin_spec a b) as [[H E]|[H E]]; rewrite E in *; clear E
  | |- context [Qcmax ?a ?b] =>
      let H := fresh "Hmax" in let E := fresh "Emax" in
      destruct (Qcmax_spec a b) as [[H E]|[H E]]; rewrite E in *; clear E
  | |- context [Qcabs ?a] =>
      let H := fresh "Habs" in let E := fresh "Eabs" in
      destruct (Qcabs_spec a) as [[H E]|[H E]]; rewrite E in *; clear E
  | H0 : context [Qcmin ?a ?b] |- _ =>
      let H := fresh "Hmin" in let E := fresh "Emin" in
      destruct (Qcmin_spec a b) as [[H E]|[H E]]; rewrite E in *; clear E
  | H0 : context [Qcmax ?a ?b] |- _ =>
      let H := fresh "Hmax" in let E := fresh "Emax" in
      destruct (Qcmax_spec a b) as [[H E]|[H E]]; rewrite E in *; clear E
  | H0 : context [Qcabs ?a] |- _ =>
      let H := fresh "Habs" in let E := fresh "Eabs" in
      destruct (Qcabs_spec a) as [[H E]|[H E]]; rewrite E in *; clear E
  end.

(* Q-level case analysis: normalise once, then split min/max/abs atoms and call lra *)
Lemma Qcmin_specQ a b :
  ((this a <= this b)%Q /\ (this (Qcmin a b) == this a)%Q) \/
  ((this b < this a)%Q /\ (this (Qcmin a b) == this b)%Q).
Proof. destruct (Qcmin_spec a b) as [[H E]|[H E]]; rewrite E; [left|right]; split; auto; reflexivity. Qed.
Lemma Qcmax_specQ a b :
  ((this a <= this b)%Q /\ (this (Qcmax a b) == this b)%Q) \/
  ((this b < this a)%Q /\ (this (Qcmax a b) == this a)%Q).
Proof. destruct (Qcmax_spec a b) as [[H E]|[H E]]; rewrite E; [left|right]; split; auto; reflexivity. Qed.
Lemma Qcabs_specQ a :
  ((0 <= this a)%Q /\ (this (Qcabs a) == this a)%Q) \/
  ((this a < 0)%Q /\ (this (Qcabs a) == - this a)%Q).
Proof.
  destruct (Qcabs_spec a) as [[H E]|[H E]]; rewrite E; [left|right]; split; auto; try reflexivity.
  apply this_opp.
Qed.
Ltac qmm_case t spec :=
  let m := fresh "m" in let S := fresh "S" in
  pose proof spec as S;
  repeat (progress rewrite ?this_plus, ?this_minus, ?this_mult, ?this_opp, ?this_Q2Qc in S);
  set (m := this t) in *; clearbody m; destruct S as [[? ?]|[? ?]].
Ltac qmm_split :=
  repeat match goal with
  | |- context [this (Qcmin ?a ?b)] => qmm_case (Qcmin a b) (Qcmin_specQ a b)
  | |- context [this (Qcmax ?a ?b)] => qmm_case (Qcmax a b) (Qcmax_specQ a b)
  | |- context [this (Qcabs ?a)] => qmm_case (Qcabs a) (Qcabs_specQ a)
  | H : context [this (Qcmin ?a ?b)] |- _ => qmm_case (Qcmin a b) (Qcmin_specQ a b)
  | H : context [this (Qcmax ?a ?b)] |- _ => qmm_case (Qcmax a b) (Qcmax_specQ a b)
  | H : context [this (Qcabs ?a)] |- _ => qmm_case (Qcabs a) (Qcabs_specQ a)
  end.
(* order goals with min/max/abs inside *)
Ltac qmlra := qc_norm; qmm_split; lra.
Ltac qmnra := qc_norm; qmm_split; nra.

Lemma Qcmin_comm a b : Qcmin a b = Qcmin b a.
Proof. qcases; qlra. Qed.
Lemma Qcmax_comm a b : Qcmax a b = Qcmax b a.
Proof. qcases; qlra. Qed.

Lemma half_double a : a * half + a * half = a.
Proof. qlra. Qed.
Lemma two_half : two * half = 1.
Proof. apply Qc_is_canon. reflexivity. Qed.

(* sums over lists *)
Fixpoint Qcsum (l : list Qc) : Qc :=
  match l with [] => 0 | x :: r => x + Qcsum r end.
Lemma Qcsum_app l1 l2 : Qcsum (l1 ++ l2) = Qcsum l1 + Qcsum l2.
Proof. induction l1 as [|x l1 IH]; cbn [Qcsum app]. ring. rewrite IH. ring. Qed.
