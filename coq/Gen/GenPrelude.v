(* Vocabulary used by the generated translation of Rectangle's methods
   (harness/translate_rect.py). *)
From FrameModel Require Import Num.QcTac Geometry.Rect.
Open Scope Qc_scope.

Record BB := mkBB { ll_of : Qc * Qc; ur_of : Qc * Qc }.
Definition pair_qc_eqb (a b : Qc * Qc) : bool := Qceqb (fst a) (fst b) && Qceqb (snd a) (snd b).
Definition set_center (r : Rect) (c : Qc * Qc) : Rect :=
  mkRect (fst c) (snd c) (rw r) (rh r) (fixed r) (hard r) (region r) (rloc r).
Definition set_shape (r : Rect) (s : Qc * Qc) : Rect :=
  mkRect (cx r) (cy r) (fst s) (snd s) (fixed r) (hard r) (region r) (rloc r).

Lemma div2_half a : a / qc 2 1 = a * half.
Proof.
  assert (E : / qc 2 1 = half) by (apply Qc_is_canon; reflexivity).
  unfold Qcdiv. rewrite E. reflexivity.
Qed.
