#!/bin/sh
# tools/merge_builder.sh <name>: merge build-<name>, resolving the usual conflicts (evidence/seeded meta -> theirs, known_findings -> union)
n=$1
git merge build-$n > /tmp/merge-$n.log 2>&1
if git status --short | grep -q "^UU\|^AA"; then
  if git status --short | grep -q "^UU known_findings.json"; then python3 tools/merge_kf.py && git add known_findings.json; fi
  for f in $(git status --short | grep "^UU \(evidence\|seeded\)" | awk '{print $2}'); do git checkout --theirs $f; git add $f; done
  if git status --short | grep -q "^UU\|^AA"; then echo "UNRESOLVED:"; git status --short | grep "^UU\|^AA"; exit 1; fi
  git commit -qm "Merge $n"
fi
git worktree remove --force /tmp/vw/$n; git branch -D build-$n >/dev/null
git log --oneline | head -1
