#!/usr/bin/env python3
"""Self-test of the C19 check: apply, one at a time, small mutations to a scratch copy of the
repository (VERIF_REPO, with fixes/C19-*.diff applied), confirm that the repository's own tests
still pass and that `./check C19` reports a VIOLATION.  Usage:
    tools/selftest_c19_mutations.py /path/to/scratch/repo
"""
import os
import subprocess
import sys
from pathlib import Path

VERIF = Path(__file__).resolve().parent.parent

MUTATIONS = [
    ("die writer changes a region tag", "frame/die/die.py",
     "            regions.append(r.vector_spec)",
     "            regions.append(r.vector_spec[:4] + (KW_BLOCKAGE,))"),
    ("allocation writer omits depth 1", "frame/allocation/allocation.py",
     "[r.rect.vector_spec, r.alloc, r.depth] if r.depth > 0",
     "[r.rect.vector_spec, r.alloc, r.depth] if r.depth > 1"),
    ("netgen ring off by one", "tools/netgen/netgen.py",
     "module_name((i + 1) % n)", "module_name((i + 2) % n)"),
    ("netgen htree level off by one", "tools/netgen/netgen.py",
     "    if nlevels == 1:\n        return modules, [], first_module + 1",
     "    if nlevels <= 2:\n        return modules, [], first_module + 1"),
    ("netgen star weight", "tools/netgen/netgen.py",
     "edges = [[module_name(0), module_name(i)] for i in range(1, n)]\n    return {KW_MODULES: modules, KW_NETS: edges}",
     "edges = [[module_name(0), module_name(i), 2] for i in range(1, n)]\n    return {KW_MODULES: modules, KW_NETS: edges}"),
    ("netgen grid vertical edge missing", "tools/netgen/netgen.py",
     "for r in range(rows - 1) for c in range(columns)]", "for r in range(rows - 2) for c in range(columns)]"),
    ("FloorSet terminal flag lost", "tools/floorset_parser/floor_set_manager/manager.py",
     "                data[KW_TERMINAL] = True\n", "                pass\n"),
    ("solution_to_netlist writes fixed as hard", "tools/rect/rect_io.py",
     "        if module.is_fixed:\n            netlist_string += \",\\n    fixed: true\"",
     "        if False:\n            netlist_string += \",\\n    fixed: true\""),
    ("legalfloor get_netlist doubles the area", "tools/legalfloor/legalfloor.py",
     "str(self.og_area[i])", "str(2 * self.og_area[i])"),
    ("dump_yaml_namededges drops weights below 1", "frame/netlist/yaml_write_netlist.py",
     "        edge = list(e.modules)  # a copy: the weight must not be appended to the edge's own list\n        if e.weight != 1:",
     "        edge = list(e.modules)  # a copy: the weight must not be appended to the edge's own list\n        if e.weight > 1:"),
]


def main():
    repo = Path(sys.argv[1])
    env = dict(os.environ, VERIF_REPO=str(repo), TMPDIR=os.environ.get("TMPDIR", "/tmp"))
    results = []
    for name, rel, old, new in MUTATIONS:
        p = repo / rel
        src = p.read_text()
        if src.count(old) != 1:
            results.append((name, "NOT APPLIED", ""))
            continue
        p.write_text(src.replace(old, new))
        try:
            t = subprocess.run(["/venv/bin/python", "-m", "pytest", "-q", "-p", "no:cacheprovider", "--timeout=900",
                                "--continue-on-collection-errors"], cwd=repo, env=dict(env, FRAME_VERIF=""),
                               stdout=subprocess.PIPE, stderr=subprocess.STDOUT, text=True)
            tests = t.stdout.strip().splitlines()[-1] if t.stdout.strip() else ""
            c = subprocess.run([str(VERIF / "check"), "C19"], cwd=VERIF, env=env, stdout=subprocess.PIPE,
                               stderr=subprocess.STDOUT, text=True)
            viol = [l for l in c.stdout.splitlines() if l.startswith("VIOLATION")]
            keys = []
            for l in viol:
                import json, re
                m = re.search(r"replay=(\S+)", l)
                if m and Path(m.group(1)).exists():
                    keys.append(json.load(open(m.group(1))).get("key", "?"))
            results.append((name, "CAUGHT" if (c.returncode != 0 and viol) else "MISSED",
                            f"tests: {tests} | exit {c.returncode} | {sorted(set(keys))}"))
        finally:
            p.write_text(src)
    for r in results:
        print(" | ".join(r))
    return 0 if all(r[1] == "CAUGHT" for r in results) else 1


if __name__ == "__main__":
    sys.exit(main())
