#!/usr/bin/env python3
"""C07 self-test: apply one mutation at a time to a scratch copy of the repository (git -C /repo worktree add /tmp/scratch-C07/repo HEAD; apply fixes/C07-isclause-gt0.diff), run the repo tests and ./check C07 with VERIF_REPO pointing at it."""
import subprocess, sys, os, shutil
R = "/tmp/scratch-C07/repo"
PB = R + "/tools/rect/pseudobool.py"
SM = R + "/tools/rect/satmanager.py"
MUTS = [
 ("M1 ifprop/elprop swapped for negative literals (standard)", PB,
  "                    return x[0][1:], x[1] - x[0][0].c if x[0][0].L.s else x[1]\n",
  "                    return x[0][1:], x[1] - x[0][0].c if not x[0][0].L.s else x[1]\n"),
 ("M2 memo keyed without the bound", PB,
  '''                def serdat(x):
                    return ",".join(map(lambda y: y.tostr(), x[0])) + ";" + str(x[1])

                return constructrobdd(data, bccond, bcconstr, dvar, ifprop, elprop, serdat)
            else:''',
  '''                def serdat(x):
                    return ",".join(map(lambda y: y.tostr(), x[0]))

                return constructrobdd(data, bccond, bcconstr, dvar, ifprop, elprop, serdat)
            else:'''),
 ("M3 one Tseitin clause dropped in _codifyrobdd", SM,
  "                    self.add_clause([-pnode, dvar, enode])\n", "                    pass\n"),
 ("M4 heule overlap index off by one", SM,
  "            h2 = lst[k - 2:]\n", "            h2 = lst[k - 1:]\n"),
 ("M5 codified shared across managers (class attribute)", SM,
  "        self.codified: dict[int, bool] = {}\n", "        self.codified = SATManager._shared\n"),
 ("M6 bccond < -> <=", PB,
  "                    return maxsum(x[0]) < x[1] or x[1] <= 0\n\n                def bcconstr(x):\n                    return 1 if x[1] <= 0 else 0\n\n                def dvar(x):\n                    return x[0][0].L.v\n\n                def ifprop(x):\n                    return x[0][1:]",
  "                    return maxsum(x[0]) <= x[1] or x[1] <= 0\n\n                def bcconstr(x):\n                    return 1 if x[1] <= 0 else 0\n\n                def dvar(x):\n                    return x[0][0].L.v\n\n                def ifprop(x):\n                    return x[0][1:]"),
 ("M7 isclause strong test >= -> > for '>='", PB,
  "(lst[i].c > self.rhs or (lst[i].c >= self.rhs and self.op == \">=\")):\n            clause.append",
  "(lst[i].c > self.rhs):\n            clause.append"),
 ("M8 largebit returns next power (decomposition)", PB,
  "    while 2 * i <= n:\n", "    while i <= n:\n"),
 ("M9 mmap hit ignores the else child", PB,
  "    obj = (dv, ifnode, elnode)\n    if obj not in mmap:\n", "    obj = (dv, ifnode, elnode)\n    if (dv, ifnode) not in {(k[0], k[1]) for k in mmap if isinstance(k, tuple)}:\n"),
 ("M10 imply forgets to negate the premises", SM,
  "        lst = list(map(lambda x: -x, list1))\n", "        lst = list(map(lambda x: x, list1))\n"),
 ("M11 quadratic inner loop starts at i+2", SM,
  "            for j in range(i + 1, len(lst)):\n", "            for j in range(i + 2, len(lst)):\n"),
 ("M12 value() of a negative literal not flipped", SM,
  "            return 1 - self.model[lit.v]\n", "            return self.model[lit.v]\n"),
 ("M13 evalexpr ignores the constant", SM,
  "        s = expr.c\n        for t in expr.t:", "        s = 0\n        for t in expr.t:"),
 ("M14 solve skips the last clause", SM,
  "        for clause in self.clauses:\n            c: list[int]", "        for clause in self.clauses[:-1] if len(self.clauses) > 7 else self.clauses:\n            c: list[int]"),
 ("M15 decomposition elprop subtracts on positive literal", PB,
  "                            x[1] if x[0][0].L.s else x[1] - largebit(x[0][0].c))",
  "                            x[1] if not x[0][0].L.s else x[1] - largebit(x[0][0].c))"),
 ("M16 heule threshold len <= k -> len < k (still terminates)", SM,
  "        if len(lst) <= k:\n", "        if len(lst) <= k + 1:\n"),
]
def sh(cmd, **kw):
    return subprocess.run(cmd, shell=True, stdout=subprocess.PIPE, stderr=subprocess.STDOUT, text=True, **kw)
which = sys.argv[1:] or [m[0].split()[0] for m in MUTS]
for name, path, old, new in MUTS:
    tag = name.split()[0]
    if tag not in which:
        continue
    orig = open(path).read()
    if orig.count(old) < 1:
        print(name, ": PATTERN NOT FOUND"); continue
    mutated = orig.replace(old, new, 1)
    if tag == "M5":
        mutated = mutated.replace("class SATManager:\n", "class SATManager:\n    _shared: dict = {}\n", 1)
    open(path, "w").write(mutated)
    try:
        t = sh(f"cd {R} && timeout 600 /venv/bin/python -m pytest -q 2>&1 | tail -1")
        c = sh("cd /tmp/vw/C07 && VERIF_REPO=/tmp/scratch-C07/repo ./check C07 2>&1 | grep -E 'VIOLATION|^C07:' | head -4")
        print("==", name); print("   tests:", t.stdout.strip()); print("   " + c.stdout.strip().replace("\n", "\n   "))
        sys.stdout.flush()
    finally:
        open(path, "w").write(orig)
