#!/usr/bin/env python3
"""Regenerates /verif/MANIFEST.json from the table below (kept here so the file stays valid)."""
import json
from pathlib import Path

V = Path(__file__).resolve().parent.parent
ALL = [f"C{i:02d}" for i in range(1, 21)]

def load_claims():
    out = {}
    for p in sorted((V / "tools" / "claims").glob("C*.json")):
        d = json.loads(p.read_text())
        out[p.stem] = (d["technique"], d["text"], d["note"], d["design_ref"])
    return out


CLAIMED = load_claims()
PENDING_REASON = "not built yet in this revision of /verif (design in DESIGN.md section 4); no check is registered, so nothing is claimed"


def main():
    checks = []
    for pid, (tech, text, note, ref) in sorted(CLAIMED.items()):
        checks.append({
            "property_id": pid,
            "quick_cmd": f"./check {pid} --tier quick",
            "thorough_cmd": f"./check {pid} --tier thorough",
            "evidence_file": f"/verif/evidence/{pid}.json",
            "replay_cmd_template": f"./check {pid} --replay {{path}}",
            "engine": "coq-correspondence",
            "level_claimed": {"category": "proof", "text": text, "design_ref": ref},
            "level_note": note,
            "technique": tech,
        })
    na = [{"property_id": p, "reason": PENDING_REASON} for p in ALL if p not in CLAIMED]
    extra = V / "tools" / "not_applicable.json"
    if extra.exists():
        reasons = json.loads(extra.read_text())
        for e in na:
            if e["property_id"] in reasons:
                e["reason"] = reasons[e["property_id"]]
    m = {
        "version": 1,
        "setup_cmd": "cd /verif && python3 tools/mkcoqproject.py && cd coq && coq_makefile -f _CoqProject -o Makefile && timeout 3000 make -j16",
        "hooks": {
            "guard": "FRAME_VERIF",
            "enable": "checks run the implementation with FRAME_VERIF=1 in the environment (set by ./check); Python, so no rebuild",
            "baseline_off_cmd": "cd /repo && env -u FRAME_VERIF /venv/bin/python -m pytest -ra -q -p no:cacheprovider --timeout=900 --continue-on-collection-errors",
            "source_commits": ["8a88eca"],
            "add_only": True,
        },
        "engines": [{
            "name": "coq-correspondence", "path": "/verif/check",
            "serves_properties": sorted(CLAIMED),
            "kind_free_text": "Coq 8.16 development (coq/) with one theorem file per property + Python correspondence harness "
                              "(harness/) that runs the real FRAME code and evaluates the Gallina model on the same cases with vm_compute",
        }],
        "checks": checks,
        "notes": "See DESIGN.md. Every check rebuilds the Coq development incrementally, re-checks the property's theorem file "
                 "(Print Assumptions) and runs the correspondence against /repo's working tree.",
        "not_applicable": na,
    }
    (V / "MANIFEST.json").write_text(json.dumps(m, indent=1) + "\n")


if __name__ == "__main__":
    main()
