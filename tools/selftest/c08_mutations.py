#!/usr/bin/env python3
"""Self-test of the C08 check: applies, one at a time, small mutations of tools/rect/rect.py to a scratch
copy of the repository (which already carries fixes/C08-border-tests.diff), confirms that the repository's own
tests still pass and that `VERIF_REPO=<copy> ./check C08` reports a VIOLATION.
usage: c08_mutations.py /path/to/scratch/repo"""
import os
import subprocess
import sys
from pathlib import Path

V = Path(__file__).resolve().parent.parent.parent
MUTATIONS = [
    ("chain-reversed",
     "        sm.imply([var_bigx[prev_x[xcoords[i]]]], var_bigx[xcoords[i]])",
     "        sm.imply([var_bigx[xcoords[i]]], var_bigx[prev_x[xcoords[i]]])"),
    ("neighbour-ge",
     "                if bb1[0] == bb2[2] and bb1[3] > bb2[1] and bb1[1] < bb2[3]:",
     "                if bb1[0] == bb2[2] and bb1[3] >= bb2[1] and bb1[1] < bb2[3]:"),
    ("imply-dropped",
     "        sm.imply([var_b[b]], var_lily[input_problem[b][3]])\n", ""),
    ("selector-alo-dropped",
     "        sm.pseudoboolencoding(north + south + east + west >= 1)\n", ""),
    ("cell-amo-dropped",
     "        sm.heuleencoding(exclusive_literals)\n", "        pass\n"),
    ("east-west-swapped",
     "                    sm.imply([var_b[b1], west, -var_b[b2]], sm.newvar(cbtag + str(b2), \"\"))",
     "                    sm.imply([var_b[b1], east, -var_b[b2]], sm.newvar(cbtag + str(b2), \"\"))"),
    ("converse-dropped-literal",
     "                  var_lily[next_y[input_problem[b][1]]],\n", ""),
    ("border-north-south",
     "            if input_problem[b1][1] == ycoords[0]:\n                sm.imply([north], -var_b[b1])",
     "            if input_problem[b1][1] == ycoords[0]:\n                sm.imply([south], -var_b[b1])"),
    ("objective-bound-off-by-one",
     "        sm.pseudoboolencoding(obj >= dif[0])", "        sm.pseudoboolencoding(obj >= dif[0] - 1)"),
]


def main():
    repo = Path(sys.argv[1])
    src = repo / "tools" / "rect" / "rect.py"
    base = src.read_text()
    rows = []
    try:
        for name, old, new in MUTATIONS:
            assert base.count(old) == 1, (name, base.count(old))
            src.write_text(base.replace(old, new))
            t = subprocess.run(["/venv/bin/python", "-m", "pytest", "-q"], cwd=repo, capture_output=True, text=True)
            tests = t.stdout.strip().splitlines()[-1] if t.stdout.strip() else "?"
            env = dict(os.environ, VERIF_REPO=str(repo))
            c = subprocess.run(["./check", "C08"], cwd=V, env=env, capture_output=True, text=True)
            viol = [l for l in c.stdout.splitlines() if l.startswith("VIOLATION")]
            rows.append((name, tests, c.returncode, viol[0] if viol else "-"))
            print(name, "|", tests, "| exit", c.returncode, "|", viol[0] if viol else "NO VIOLATION", flush=True)
    finally:
        src.write_text(base)
    missed = [r for r in rows if r[2] == 0]
    print(f"{len(rows) - len(missed)}/{len(rows)} mutations caught")
    return 1 if missed else 0


if __name__ == "__main__":
    sys.exit(main())
