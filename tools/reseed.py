#!/usr/bin/env python3
"""tools/reseed.py <ID>/<dir> [more ...] [-- extra property ids]
Re-confirms stored seeded changes (seeded/<ID>/<dir>/patch.diff, demo.py, meta.json) against the checks as they are now:
breaking changes through tools/seedcheck.py, benign ones (dir name starts with 'benign-') through tools/benigncheck.py.
meta.json is rewritten with the new confirmation."""
import json, os, shutil, subprocess, sys, tempfile
from pathlib import Path
V = Path(__file__).resolve().parent.parent
args = sys.argv[1:]
extra = []
if "--" in args:
    i = args.index("--"); extra = args[i + 1:]; args = args[:i]
for a in args:
    pid, d = a.split("/")
    src = V / "seeded" / pid / d
    benign = d.startswith("benign")
    tag, k = (d.rsplit("-", 1)[0] + "-", d.rsplit("-", 1)[1]) if "-" in d else ("", d)
    with tempfile.TemporaryDirectory(prefix="reseed", dir="/tmp") as t:
        shutil.copy(src / "patch.diff", Path(t) / f"patch{k}.diff")
        shutil.copy(src / "demo.py", Path(t) / f"demo{k}.py")
        meta = json.load(open(src / "meta.json"))
        old = meta.get("confirmation") or {}
        if old:
            h = meta.get("history")
            if not isinstance(h, list):
                h = [] if not h else [h]
            h.append({"caught" if "caught" in old else "alarm": old.get("caught", old.get("alarm")),
                      "checks": {c: (v.get("exit"), (v.get("lines") or [""])[0][-40:]) for c, v in (old.get("checks") or {}).items()}})
            meta["history"] = h
        for key in ("confirmation", "what_i_ran", "breaks_property", "kind"):
            meta.pop(key, None)
        json.dump(meta, open(Path(t) / f"meta{k}.json", "w"))
        tool = "benigncheck.py" if benign else "seedcheck.py"
        r = subprocess.run([sys.executable, str(V / "tools" / tool), pid, t, k] + extra,
                           env=dict(os.environ, SEED_TAG=tag), stdout=subprocess.PIPE, stderr=subprocess.STDOUT, text=True)
        print(a, r.stdout.strip().splitlines()[-1][:400] if r.stdout.strip() else r.returncode, flush=True)
