#!/usr/bin/env python3
"""Resolve a merge conflict in known_findings.json: union of the entries of both sides by (property, key); on a clash
the entry with status 'fixed' wins, otherwise ours."""
import json, subprocess, sys
def show(stage):
    return json.loads(subprocess.run(["git", "show", f":{stage}:known_findings.json"], capture_output=True, text=True, check=True).stdout)
ours, theirs = show(2), show(3)
out = {(f["property"], f["key"]): f for f in ours["findings"]}
order = [(f["property"], f["key"]) for f in ours["findings"]]
for f in theirs["findings"]:
    k = (f["property"], f["key"])
    if k not in out:
        out[k] = f; order.append(k)
    elif out[k].get("status") != "fixed" and f.get("status") == "fixed":
        out[k] = f
json.dump({"findings": [out[k] for k in order]}, open("known_findings.json", "w"), indent=1)
print("known findings:", len(order))
