#!/usr/bin/env python3
"""C10 self-test: apply one mutation at a time to a scratch copy of the repository
(git -C /repo worktree add /tmp/scratch-C10/repo HEAD), run the repo tests and ./check C10 with
VERIF_REPO pointing at it. Every mutation keeps the repository's own tests passing and must be
reported as a VIOLATION."""
import subprocess, sys, os
V = os.path.dirname(os.path.dirname(os.path.abspath(__file__)))
R = os.environ.get("C10_SCRATCH", "/tmp/scratch-C10/repo")
OPT = R + "/tools/glbfloor/optimization.py"
MOD = R + "/frame/netlist/module.py"
MUTS = [
 ("M1 threshold filter > becomes >=", OPT,
  "            if a_mc_val > 1 - threshold:\n", "            if a_mc_val >= 1 - threshold:\n"),
 ("M2 threshold filter compares with threshold instead of 1 - threshold", OPT,
  "            if a_mc_val > 1 - threshold:\n", "            if a_mc_val > threshold:\n"),
 ("M3 recenter uses the unweighted mean of the rectangle centres", MOD,
  "        x = sum(r.center.x*r.area for r in self.rectangles)/area\n        y = sum(r.center.y*r.area for r in self.rectangles)/area\n",
  "        x = sum(r.center.x for r in self.rectangles)/len(self.rectangles)\n        y = sum(r.center.y for r in self.rectangles)/len(self.rectangles)\n"),
 ("M4 x flip mirrors about the die centre instead of the module centre", OPT,
  "                        rectangle.center.x = module.center.x - (rectangle.center.x - module.center.x)\n",
  "                        rectangle.center.x = die.width / 2 - (rectangle.center.x - die.width / 2)\n"),
 ("M5 allocation of fixed modules is not forced (left to the solver)", OPT,
  "            if module.is_fixed or \\\n                    a_mc > threshold and", "            if a_mc > threshold and"),
 ("M6 empty cells are not dropped", OPT,
  "        if alloc:  # add only if not empty\n", "        if True:\n"),
 ("M7 y flip also swaps width and height of the rectangles", OPT,
  "                        rectangle.center.y = module.center.y - (rectangle.center.y - module.center.y)\n",
  "                        rectangle.center.y = module.center.y - (rectangle.center.y - module.center.y)\n"
  "                        rectangle.shape = type(rectangle.shape)(rectangle.shape.h, rectangle.shape.w)\n"),
 ("M8 centre of hard modules not updated before recentering", OPT,
  "        module.center = Point(get_value(model.x[m]), get_value(model.y[m]))\n        if module.is_hard and not module.is_fixed:\n",
  "        if not module.is_hard:\n            module.center = Point(get_value(model.x[m]), get_value(model.y[m]))\n        if module.is_hard and not module.is_fixed:\n"),
 ("M9 flip test uses <= 0 (coincident centres count as opposite)", OPT,
  "                       (module.rectangles[0].center.x - module.rectangles[r].center.x) < 0\n",
  "                       (module.rectangles[0].center.x - module.rectangles[r].center.x) <= 0\n"),
 ("M10 get_a ignores the stored ratio of a one-rectangle module", OPT,
  "    if module.name in allocation.allocations[cell_index].alloc:\n",
  "    if module.name in allocation.allocations[cell_index].alloc and module.num_rectangles != 1:\n"),
 ("M11 recenter moves only the first rectangle in y", MOD,
  "            r.center.y += inc_y\n", "            r.center.y += inc_y if r is self.rectangles[0] else 0.0\n"),
 # ---- the constraint system of optimize_allocation (Glb/System.v)
 ("M12 the aggregated ratio of a movable hard module is not linked to its rectangles", OPT,
  "            g.Equation(model.a[m][c] == g.sum([model.a[f\"{m}_{r}\"][c] for r in range(module.num_rectangles)]))\n",
  "            pass\n"),
 ("M13 ratio variables have no upper bound", OPT,
  "                model.a[m][c] = g.Var(value=a_mc, lb=0, ub=1, name=f\"a_{m}_{c}\")\n",
  "                model.a[m][c] = g.Var(value=a_mc, lb=0, name=f\"a_{m}_{c}\")\n"),
 ("M14 capacity equation only over the soft and fixed modules (hard rectangles skipped)", OPT,
  "        g.Equation(g.sum([model.a[m][c] for m in model.a.keys()]) <= 1)\n",
  "        g.Equation(g.sum([model.a[mod.name][c] for mod in modules if not mod.is_hard or mod.is_fixed]) <= 1)\n"),
 ("M15 the freezing rule uses >= threshold / <= 1 - threshold (ties frozen)", OPT,
  "                    a_mc > threshold and all(get_a(allocation, module, d) > threshold for d in neigh_cells[c]) or \\\n"
  "                    a_mc < 1 - threshold and all(get_a(allocation, module, d) < 1 - threshold for d in neigh_cells[c]):\n",
  "                    a_mc >= threshold and all(get_a(allocation, module, d) >= threshold for d in neigh_cells[c]) or \\\n"
  "                    a_mc <= 1 - threshold and all(get_a(allocation, module, d) <= 1 - threshold for d in neigh_cells[c]):\n"),
]


def sh(cmd, **kw):
    return subprocess.run(cmd, shell=True, stdout=subprocess.PIPE, stderr=subprocess.STDOUT, text=True, **kw)


which = sys.argv[1:] or [m[0].split()[0] for m in MUTS]
for name, path, old, new in MUTS:
    tag = name.split()[0]
    if tag not in which:
        continue
    orig = open(path).read()
    if orig.count(old) < 1:
        print(name, ": PATTERN NOT FOUND")
        continue
    open(path, "w").write(orig.replace(old, new, 1))
    try:
        t = sh(f"cd {R} && timeout 900 /venv/bin/python -m pytest -q -p no:cacheprovider 2>&1 | tail -1")
        c = sh(f"cd {V} && VERIF_REPO={R} ./check C10 2>&1 | grep -E 'VIOLATION|^C10:' | head -4")
        print("==", name)
        print("   tests:", t.stdout.strip())
        print("   " + c.stdout.strip().replace("\n", "\n   "))
        sys.stdout.flush()
    finally:
        open(path, "w").write(orig)
