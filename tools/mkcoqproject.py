#!/usr/bin/env python3
"""Regenerates coq/_CoqProject: every .v file under coq/ (except scratch*), sorted."""
from pathlib import Path
C = Path(__file__).resolve().parent.parent / "coq"
files = sorted(str(p.relative_to(C)) for p in C.rglob("*.v") if not p.name.startswith("scratch"))
new = "-Q . FrameModel\n" + "\n".join(files) + "\n"
p = C / "_CoqProject"
if not p.exists() or p.read_text() != new:
    p.write_text(new)
