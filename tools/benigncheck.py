#!/usr/bin/env python3
"""tools/seedcheck.py <ID> <src-dir> <k> [more property ids to run]
Confirms a BENIGN change (property still holds; the check must stay quiet) (patch<k>.diff + demo<k>.py + meta<k>.json in <src-dir>): applies it to a scratch
worktree of /repo, runs the 46 repository tests, the demonstration with and without the change, and the
registered check(s) against the changed copy (VERIF_REPO).  Stores everything under seeded/<ID>/<k>/."""
import json, os, shutil, subprocess, sys, time
from pathlib import Path

V = Path(__file__).resolve().parent.parent
pid, src, k = sys.argv[1], Path(sys.argv[2]), sys.argv[3]
checks = sys.argv[4:] or [pid]
tag = os.environ.get("SEED_TAG", "")
wt = Path(f"/tmp/sw/{pid}-{tag}{k}")
subprocess.run(["git", "-C", "/repo", "worktree", "remove", "--force", str(wt)], capture_output=True)
wt.parent.mkdir(exist_ok=True)
def run(cmd, **kw):
    p = subprocess.run(cmd, stdout=subprocess.PIPE, stderr=subprocess.STDOUT, text=True, **kw)
    return p.returncode, p.stdout
rc, out = run(["git", "-C", "/repo", "worktree", "add", "-q", str(wt), "HEAD"])
res = {"property": pid, "k": k}
try:
    patch = src / f"patch{k}.diff"
    rc, out = run(["git", "-C", str(wt), "apply", "-3", str(patch)])
    res["applies"] = rc == 0
    env = dict(os.environ, PYTHONPATH=str(wt), PYTHONDONTWRITEBYTECODE="1")
    env.pop("FRAME_VERIF", None)
    rc, out = run(["/venv/bin/python", "-m", "pytest", "-q", "-p", "no:cacheprovider"], cwd=wt, env=env)
    res["tests_pass_with_change"] = (rc == 0)
    res["tests_tail"] = out.strip().splitlines()[-1] if out.strip() else ""
    rc, out = run(["/venv/bin/python", str(src / f"demo{k}.py")], cwd="/tmp", env=env, timeout=900)
    res["demo_passes_with_change"] = rc == 0
    res["demo_with_change_tail"] = out[-600:]
    env0 = dict(env, PYTHONPATH="/repo")
    rc, out = run(["/venv/bin/python", str(src / f"demo{k}.py")], cwd="/tmp", env=env0, timeout=900)
    res["demo_passes_without_change"] = rc == 0
    res["checks"] = {}
    for c in checks:
        t0 = time.time()
        rc, out = run([str(V / "check"), c], cwd=V, env=dict(os.environ, VERIF_REPO=str(wt)), timeout=3000)
        lines = [l for l in out.splitlines() if l.startswith("VIOLATION") or l.startswith("KNOWN-FINDING")]
        res["checks"][c] = {"exit": rc, "lines": lines[:5], "summary": out.strip().splitlines()[-1][:400] if out.strip() else "",
                            "wall_s": round(time.time() - t0, 1)}
        # keep one replay for the record
        for l in lines:
            if "replay=" in l:
                rp = l.split("replay=")[1].split()[0]
                try:
                    d = json.load(open(rp))
                    res["checks"][c]["replay_excerpt"] = {kk: d.get(kk) for kk in ("kind", "key", "why", "what")}
                except Exception:
                    pass
                break
    res["alarm"] = any(v["exit"] != 0 for v in res["checks"].values())
finally:
    subprocess.run(["git", "-C", "/repo", "worktree", "remove", "--force", str(wt)], capture_output=True)
dst = V / "seeded" / pid / (tag + str(k))
dst.mkdir(parents=True, exist_ok=True)
shutil.copy(src / f"patch{k}.diff", dst / "patch.diff")
shutil.copy(src / f"demo{k}.py", dst / "demo.py")
meta = {}
try:
    meta = json.load(open(src / f"meta{k}.json"))
except Exception:
    pass
meta.update({"kind": "benign (property still holds)", "property": pid, "confirmation": res,
             "what_i_ran": "tools/seedcheck.py: patch applied to a scratch worktree of /repo HEAD; 46 repo tests; demo with/without the change; "
                           "./check with VERIF_REPO pointing at the changed copy"})
json.dump(meta, open(dst / "meta.json", "w"), indent=1)
print(json.dumps({kk: res.get(kk) for kk in ("applies", "tests_pass_with_change", "demo_passes_with_change",
                                              "demo_passes_without_change", "alarm")}),
      {c: (v["exit"], v["lines"][:1]) for c, v in res.get("checks", {}).items()})
